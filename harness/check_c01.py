"""C01 - Wavefunction states satisfy the Born rule they are defined by.

spec/RBM.tla defines the Boltzmann weight, its hidden-unit marginal and the partition sum
from first principles on the exact lattice (parameters t*ln B) and TLC checks, modulo three
primes, that the closed forms the code implements (softplus effective energy) equal them
(Marginal, HiddenMarginal, Partition) at every enumerated lattice point and every supplied
point (all parameters non-zero, magnitudes to ~30).  Every point is then replayed into
PositiveWaveFunction / ComplexWaveFunction with the parameters set to t*ln B, and psi,
amplitude, phase, probability and normalisation are compared with the exact values that
the generic evaluator computes from the exported factor forms.
"""
import random
from fractions import Fraction

import mpmath
import torch

import bigbatch
import common
import lattice
import terms
import tlc

PID = "C01"
REL = 1e-9


def mc(tier, points, seed):
    if tier == "quick":
        archs = "{<<1,1,2>>, <<2,1,3>>, <<1,2,2>>, <<2,2,2>>}"
        vals = "{-2, -1, 1, 2}" if False else "{-1, 1, 2}"
    else:
        archs = "{<<1,1,2>>, <<1,1,3>>, <<2,1,2>>, <<1,2,3>>, <<2,2,2>>, <<2,2,3>>}"
        vals = "{-2, -1, 1, 2}"
    pf = lattice.PointsFile(points)
    try:
        return tlc.run("RBM", constants={"TMax": 1800, "Lanes": 32}, defs={"Archs": archs, "Vals": vals},
                       invariants=["WellDefined", "Marginal", "HiddenMarginal", "Partition", "Export"],
                       env={"POINTS_FILE": pf.path}, workers=16, timeout=3400, seed=seed)
    finally:
        pf.close()


def cmp(chk, key, what, got, want, detail, rel=None):
    """got: float(s); want: exact (Fraction / mpmath).  Unrepresentable magnitudes are not judged
    except that a finite wrong value is."""
    chk.evaluations += 1
    rel = REL if rel is None else rel
    w = terms.mpf(want) if isinstance(want, Fraction) else want
    if abs(w) > mpmath.mpf(10) ** 300:
        chk.extra["unrepresentable"] = chk.extra.get("unrepresentable", 0) + 1
        return True
    if not terms.close(got, w, rel=rel, abs_=1e-300):
        chk.violation("%s:%s" % (key, what), dict(detail, what=what, got=repr(got), expected=mpmath.nstr(w, 20)))
        return False
    return True


def long_batch(chk, st, key, nv, n, p_exact, amp, det):
    """Batches are lists of samples, not subsets of the basis: more rows than basis states, repeated rows,
    arbitrary order.  Each row's value is that row's value."""
    D = 2 ** nv
    r = random.Random(n)
    m = D + 1 + n % (2 * D + 3) if n % 8 else bigbatch.size(n // 8)      # now and then thousands of rows
    idx = [r.randrange(D) for _ in range(m)]
    vb = lattice.space(nv)[idx]
    prob, am, psi = st.probability(vb), st.amplitude(vb), st.psi(vb)
    ok = True
    for j in (0, len(idx) // 2, len(idx) - 1, r.randrange(len(idx))):
        d = dict(det, state=idx[j], row=j, rows=len(idx))
        ok &= cmp(chk, key, "probability[long-batch]", prob[j].item(), p_exact[idx[j]], d)
        ok &= cmp(chk, key, "amplitude[long-batch]", am[j].item(), amp[idx[j]], d)
        ok &= cmp(chk, key, "born[long-batch]", psi[0, j].item() ** 2 + psi[1, j].item() ** 2, terms.mpf(prob[j].item()), d,
                  rel=1e-12)
    return ok


def z_forms(chk, st, key, sp, p_exact, Z, det, n):
    """probability(v, Z): Z is documented as a float; users pass float(normalization(space)), .item(), a numpy
    scalar or the tensor itself, by position or by keyword - the normalised probability is the same number"""
    if abs(terms.mpf(Z)) > mpmath.mpf(10) ** 300:
        return True
    zt = st.normalization(sp)
    forms = [("tensor", lambda: st.probability(sp, zt)), ("float", lambda: st.probability(sp, float(zt))),
             ("keyword-float", lambda: st.probability(sp, Z=zt.item())),
             ("numpy-scalar", lambda: st.probability(sp, __import__("numpy").float64(zt.item())))]
    name, f = forms[n % len(forms)]
    pz = f()
    ok = True
    k = n % len(p_exact)
    want = terms.mpf(p_exact[k]) / terms.mpf(Z)
    ok &= cmp(chk, key, "probability[Z as %s]" % name, pz[k].item(), want, dict(det, state=k), rel=REL + 1e-12)
    ok &= cmp(chk, key, "probability[Z as %s]:sum" % name, pz.sum().item(), mpmath.mpf(1), det, rel=REL + 1e-12)
    return ok


def replay_point(chk, e, n):
    nv, nh, B = e["nv"], e["nh"], e["B"]
    # torch's softplus returns x for x > 20 (threshold), i.e. drops log1p(exp(-x)) <= 2.07e-9 per hidden
    # unit: an absolute error of the effective energy that no implementation choice of QuCumber removes
    global REL
    REL = 1e-9 + nh * 2.1e-9
    pt = dict(nv=nv, nh=nh, B=B, am=e["am"], ph=e["ph"])
    det = dict(point=pt)
    sp = lattice.space(nv)
    p_exact = [terms.fac(B, r["k"], r["ms"]) for r in e["pam"]]          # unnormalised probabilities
    r_exact = [terms.fac(B, r["k"], r["ms"]) for r in e["pph"]]          # exp(-E_mu)
    Z = sum(p_exact)
    amp = [terms.sqrt(p) for p in p_exact]
    # ---- positive wavefunction
    pos = lattice.positive_state(pt)
    key = "positive"
    prob = pos.probability(sp)
    psi = pos.psi(sp)
    am = pos.amplitude(sp)
    ph = pos.phase(sp)
    ok = True
    for k in range(2 ** nv):
        ok &= cmp(chk, key, "probability", prob[k].item(), p_exact[k], dict(det, state=k))
        ok &= cmp(chk, key, "psi.real", psi[0, k].item(), amp[k], dict(det, state=k))
        ok &= cmp(chk, key, "amplitude", am[k].item(), amp[k], dict(det, state=k))
        if psi[1, k].item() != 0.0 or ph[k].item() != 0.0 or not (psi[0, k].item() >= 0.0):
            chk.violation(key + ":not-real-nonnegative", dict(det, state=k, psi=[psi[0, k].item(), psi[1, k].item()]))
            ok = False
        # |psi|^2 = reported probability (code against code, the Born rule itself)
        ok &= cmp(chk, key, "born", psi[0, k].item() ** 2 + psi[1, k].item() ** 2, terms.mpf(prob[k].item()),
                  dict(det, state=k), rel=1e-12)
    ok &= cmp(chk, key, "normalization", pos.normalization(sp).item(), Z, det)
    ok &= cmp(chk, key, "compute_normalization", pos.compute_normalization(sp).item(), Z, det)
    pz = pos.probability(sp, pos.normalization(sp))
    ok &= cmp(chk, key, "probabilities-sum-to-one", pz.sum().item(), mpmath.mpf(1), det)
    ok &= z_forms(chk, pos, key, sp, p_exact, Z, det, n)
    # 1-D call forms
    k1 = n % (2 ** nv)
    ok &= cmp(chk, key, "probability[1-D]", pos.probability(sp[k1]).item(), p_exact[k1], dict(det, state=k1))
    v1 = pos.psi(sp[k1])
    ok &= cmp(chk, key, "psi[1-D]", v1[0].item(), amp[k1], dict(det, state=k1))
    if tuple(v1.shape) != (2,) and tuple(v1.shape) != (2, 1):
        chk.violation(key + ":psi[1-D]-shape", dict(det, shape=list(v1.shape)))
    ok &= long_batch(chk, pos, key, nv, n, p_exact, amp, det)
    # ---- complex wavefunction
    cx = lattice.complex_state(pt, via_module=(n % 5 == 0))
    key = "complex"
    prob = cx.probability(sp)
    psi = cx.psi(sp)
    am = cx.amplitude(sp)
    ph = cx.phase(sp)
    for k in range(2 ** nv):
        phase = terms.ln(r_exact[k]) / 2                       # -E_mu / 2
        want = amp[k] * terms.cis(phase)
        ok &= cmp(chk, key, "probability", prob[k].item(), p_exact[k], dict(det, state=k))
        ok &= cmp(chk, key, "amplitude", am[k].item(), amp[k], dict(det, state=k))
        chk.evaluations += 1
        if abs(terms.mpf(p_exact[k])) < mpmath.mpf(10) ** 300:
            if not terms.close(ph[k].item(), phase, rel=1e-12, abs_=nh * 1.05e-9 + 1e-12):
                chk.violation(key + ":phase", dict(det, state=k, got=ph[k].item(), expected=mpmath.nstr(phase, 20)))
                ok = False
            # absolute accuracy of cos/sin at |phase| up to ~50 rad is ~1e-14; judge relative to the modulus
            tol = REL * abs(want) + mpmath.mpf(10) ** -300
            if abs(mpmath.mpf(psi[0, k].item()) - want.real) > tol or abs(mpmath.mpf(psi[1, k].item()) - want.imag) > tol:
                chk.violation(key + ":psi", dict(det, state=k, got=[psi[0, k].item(), psi[1, k].item()],
                                                 expected=[mpmath.nstr(want.real, 20), mpmath.nstr(want.imag, 20)]))
                ok = False
        ok &= cmp(chk, key, "born", psi[0, k].item() ** 2 + psi[1, k].item() ** 2, terms.mpf(prob[k].item()),
                  dict(det, state=k), rel=1e-12)
    ok &= cmp(chk, key, "normalization", cx.normalization(sp).item(), Z, det)
    # "every basis state": the state's own enumeration (no size given) is the 2^nv states of its visible layer,
    # whatever the width of the hidden layer
    own = cx.generate_hilbert_space()
    chk.evaluations += 1
    if tuple(own.shape) != tuple(sp.shape) or not torch.equal(own.to(sp.dtype), sp):
        chk.violation(key + ":own-basis", dict(det, shape=list(own.shape), expected_shape=list(sp.shape)))
        ok = False
    else:
        ok &= cmp(chk, key, "normalization[own basis]", cx.normalization(own).item(), Z, det)
    ok &= z_forms(chk, cx, key, sp, p_exact, Z, det, n)
    v1 = cx.psi(sp[k1])
    w1 = amp[k1] * terms.cis(terms.ln(r_exact[k1]) / 2)
    chk.evaluations += 1
    if abs(terms.mpf(p_exact[k1])) < mpmath.mpf(10) ** 300:
        if abs(mpmath.mpf(v1[0].item()) - w1.real) > REL * abs(w1) or abs(mpmath.mpf(v1[1].item()) - w1.imag) > REL * abs(w1):
            chk.violation(key + ":psi[1-D]", dict(det, state=k1))
            ok = False
    ok &= long_batch(chk, cx, key, nv, n, p_exact, amp, det)
    # the modulus depends on the amplitude network only: change mu, |psi| must be bit-identical
    mod_before = cx.amplitude(sp).clone()
    abs_before = (cx.psi(sp) ** 2).sum(0)
    other = dict(pt, ph=dict(W=[[-x for x in row] for row in e["ph"]["W"]], b=[x + 1 for x in e["ph"]["b"]],
                             c=[2 * x for x in e["ph"]["c"]]))
    lattice.set_net(cx.rbm_ph, other["ph"], B)
    chk.evaluations += 1
    if not torch.equal(cx.amplitude(sp), mod_before) or not torch.equal(cx.probability(sp), prob):
        chk.violation(key + ":modulus-depends-on-phase-network", det)
        ok = False
    if not torch.allclose((cx.psi(sp) ** 2).sum(0), abs_before, rtol=1e-12, atol=0):
        chk.violation(key + ":modulus-depends-on-phase-network", det)
        ok = False
    return ok


def many_sites(chk, rng, tier):
    """Beyond the exhaustive bound in the number of SITES: 13 visible units (8192 basis states, more than any
    block size an implementation would cut a space into), a lattice point with small parameters; the
    normalisation and sampled rows against the defining sums evaluated with 50 digits."""
    for rep in range(1 if tier == "quick" else 4):
        nv, nh, B = 13, rng.randint(1, 2), rng.choice([2, 3])
        pt = dict(nv=nv, nh=nh, B=B, am=lattice.random_net(rng, nv, nh, 2), ph=lattice.random_net(rng, nv, nh, 2))
        bm = mpmath.mpf(B)

        def weight(v):
            a = pt["am"]
            w = bm ** sum(a["b"][i] * v[i] for i in range(nv))
            for j in range(nh):
                w *= 1 + bm ** (a["c"][j] + sum(a["W"][j][i] * v[i] for i in range(nv)))
            return w
        rows = [[(k >> (nv - 1 - i)) & 1 for i in range(nv)] for k in range(2 ** nv)]
        ws = [weight(v) for v in rows]
        Z = mpmath.fsum(ws)
        det = dict(point=pt, many_sites=True)
        for key, st in (("positive", lattice.positive_state(pt)), ("complex", lattice.complex_state(pt))):
            sp = st.generate_hilbert_space(nv)
            cmp(chk, key, "normalization[13 sites]", st.normalization(sp).item(), Z, det, rel=1e-9)
            prob = st.probability(sp)
            cmp(chk, key, "probability[13 sites]:sum", prob.sum().item(), Z, det, rel=1e-9)
            for k in (0, 4095, 4096, 4097, 2 ** nv - 1, rng.randrange(2 ** nv)):
                cmp(chk, key, "probability[13 sites]", prob[k].item(), ws[k], dict(det, state=k), rel=1e-9)
            psi = st.psi(sp)
            k = rng.randrange(4097, 2 ** nv)
            cmp(chk, key, "born[13 sites]", psi[0, k].item() ** 2 + psi[1, k].item() ** 2, ws[k], dict(det, state=k), rel=1e-9)
        chk.nontriv(("many-sites", rep))


def run(tier, seed):
    chk = common.Check(PID, tier, seed)
    lattice.REUSE = True          # parameter settings reached on live objects, by every route (see lattice.py)
    rng = random.Random(seed)
    chk.rule = ("lattice points theta = t*ln B: exhaustive small architectures (all parameters in a non-zero value "
                "set) + seeded points nv 1..5, nh 1..6, B in {2,3}, |t| up to 43 (|theta| ~ 30); TLC checks the "
                "marginal/partition identities modulo 3 primes at each; every point replayed into "
                "PositiveWaveFunction and ComplexWaveFunction; non-trivial = every point (all biases non-zero)")
    npts = 250 if tier == "quick" else 3000
    points = [lattice.random_point(rng) for _ in range(npts)]
    res = mc(tier, points, seed)
    chk.add_tlc(res, "RBM.tla Marginal/HiddenMarginal/Partition")
    if res.violation:
        if res.violation == "WellDefined":
            raise common.MachineryError("lattice bound exceeded (WellDefined)\n" + res.raw[-2000:])
        chk.violation("spec:" + str(res.violation), dict(tlc=res.raw[-4000:]))
        return chk.finish()
    exps = res.exports
    got_idx = {e["idx"] for e in exps if e["idx"] > 0}
    if len(got_idx) != npts:
        raise common.MachineryError("TLC handled %d of %d supplied points" % (len(got_idx), npts))
    # TLC checks the identities at EVERY enumerated point; a seeded sample of them is replayed into the code
    enum = [e for e in exps if e["idx"] == 0]
    chk.extra["enumerated_points_checked_by_tlc"] = len(enum)
    exps = [e for e in exps if e["idx"] > 0] + rng.sample(enum, min(len(enum), 350 if tier == "quick" else 25000))
    for n, e in enumerate(exps):
        replay_point(chk, e, n)
        chk.nontriv((e["nv"], e["nh"], e["B"], str(e["am"]), str(e["ph"])))
        if n % 150 == 3:
            chk.sample(dict(nv=e["nv"], nh=e["nh"], B=e["B"], am=e["am"], ph=e["ph"], factor_form_of_p=e["pam"][:2]))
    # negative control: a wrong expected value (hidden bias dropped from one factor) must be flagged
    ctl = common.Check(PID, tier, seed)
    e = dict(exps[0])
    e["pam"] = [dict(r, ms=[m - e["am"]["c"][j] for j, m in enumerate(r["ms"])]) for r in e["pam"]]
    replay_point(ctl, e, 0)
    chk.control(len(ctl.violations) > 0, "expected values without the hidden bias compared equal")
    many_sites(chk, rng, tier)
    chk.extra["points_replayed"] = len(exps)
    if not chk.violations:
        # the call forms themselves: the argument-dispatch decorators behind every 1-D / batched call form
        # (spec/Dispatch.tla, TraceDispatch.tla; see ext_dispatch.py)
        import ext_dispatch
        ext_dispatch.run(chk, tier, seed)
    chk.assumptions += ["parameters on the lattice t*ln B (B = 2, 3); the continuum in between is not decided",
                        "identities inside TLC hold modulo the primes 46327, 46307, 46279",
                        "values whose exact magnitude exceeds 1e300 are not judged", "float64 on CPU, tolerance 1e-9 relative"]
    return chk.finish()
