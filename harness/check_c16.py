"""C16 - Composite observables evaluate to the same arithmetic on their parts.

spec/ObsExpr.tla generates expression trees (leaf observables, rational scalars, non-numeric
operands; unary minus, +, -, *) as programs of a stack machine and relates, for every tree,
  Eval(e)  - the linear form the expression denotes, NonLinear(e)/Fault(e) - the rejection rule -
  Build(e) - Python's operator dispatch + the overload bodies + the constructors' checks,
  Apply(.) - SumObservable.apply / ProdObservable.apply on the built object.
TLC checks OverloadsAreArithmetic, RejectedIffNonLinear, BuiltShape, Linearity on every state.
Every exported tree is then evaluated with the real operators over real observables / scalars on
real states (obsexpr_replay.py): constructed object graph = Build(e), apply = the linear form on
the leaves' per-sample values, statistics_from_samples = statistics of that vector, rejection =
the documented exception when built.

Verdict policy: wrong values / statistics / acceptance / exception class are violations.  A
constructed object graph that differs from Build(e) while all values agree is not a breach of
the property (it is about values): a different operand order inside a sum is noted as a
symmetric alternative, any other difference stops the check as a machinery failure
("specification drift": the model of the overloads must be updated before TLC's verdict transfers).
"""
import copy
import json
import random
import re
import time

import common
import tlc

PID = "C16"
SCALARS = "{<<-3,1>>, <<-1,1>>, <<0,1>>, <<1,2>>, <<1,1>>, <<2,1>>}"
INVARIANTS = ["TypeOK", "InScope", "RejectedIffNonLinear", "OverloadsAreArithmetic", "BuiltShape", "Linearity"]
EXPORT = "MC_Export == Complete => PrintT(ToJson(Record(Top)))"
# seeded faults in the specification's model of the library and the invariant that must expose each
VARIANTS = [("rsub-swapped", "OverloadsAreArithmetic"), ("prod-accepts-two-observables", "RejectedIffNonLinear"),
            ("neg-plus-one", "Linearity"), ("sum-drops-right-scalar", "OverloadsAreArithmetic"),
            ("sub-negates-self", "OverloadsAreArithmetic"), ("neg-plus-one", "OverloadsAreArithmetic")]
WORKERS = 8


def leaves_tla(names):
    return "<<" + ", ".join('"%s"' % n for n in names) + ">>"


def model(names, max_depth, first="LeafAtoms \\cup NumAtoms \\cup BadAtoms", variant="code", export=True,
          simulate=None, sim_len=None, seed=None, timeout=1500, invariants=None):
    res = tlc.run("ObsExpr",
                  constants=dict(Bads={"str", "none"}, MaxDepth=max_depth, MaxStack=max_depth, Bound=4096,
                                 Variant=variant),
                  defs={"Leaves": leaves_tla(names), "Scalars": SCALARS, "FirstAtoms": first},
                  invariants=list(invariants or INVARIANTS) + (["MC_Export"] if export else []),
                  extends_extra=["Json"], extra_text=EXPORT if export else "",
                  workers=WORKERS, heap="4g", timeout=timeout, simulate=simulate, depth=sim_len, seed=seed)
    if simulate:            # the simulator reports "N states checked" instead of generated / distinct
        m = re.findall(r"(\d+) states checked", res.raw)
        if m:
            res.generated = int(m[-1])
    res.raw = res.raw[-6000:]
    return res


def unique(exports):
    """Distinct trees (the simulator revisits prefixes), deterministic order."""
    seen = {}
    for r in exports:
        k = json.dumps(r["e"], sort_keys=True)
        if k not in seen:
            seen[k] = r
    return [seen[k] for k in sorted(seen)]


class Replayer:
    def __init__(self, chk, fixtures, names, seed):
        self.chk, self.fixtures, self.names, self.seed = chk, fixtures, names, seed
        self.n = 0
        self.tags = {}
        self.depths = {}
        self.by_policy = {}
        self.by_state = {}
        self.sampled = {}

    def one(self, rec, policy, fx):
        import obsexpr_replay as R
        self.n += 1
        tag = R.check_record(self.chk, rec, fx, self.names, policy, self.seed + self.n)
        self.tags[tag] = self.tags.get(tag, 0) + 1
        if tag in ("ok", "rejected"):
            self.chk.nontriv((R.show(rec["e"]), policy, fx.fid))
            self.depths[rec["depth"]] = self.depths.get(rec["depth"], 0) + 1
            self.by_policy[policy] = self.by_policy.get(policy, 0) + 1
            self.by_state[fx.kind] = self.by_state.get(fx.kind, 0) + 1
        if tag == "ok" and rec["depth"] >= 3 and self.n % 97 == 0 and self.sampled.get(rec["depth"], 0) < 2:
            self.sampled[rec["depth"]] = self.sampled.get(rec["depth"], 0) + 1
            self.chk.sample(limit=8, obj=dict(expr=R.show(rec["e"]), policy=policy, state=fx.kind, nv=fx.desc["nv"],
                                 linear_form=rec["lin"], built=rec["build"]))
        return tag

    def rotate(self, recs):
        """each record on one fixture with one scalar policy; both rotate (lengths are coprime)"""
        import obsexpr_replay as R
        if len(self.fixtures) % len(R.POLICIES) == 0:
            raise common.MachineryError("fixture and policy counts must be coprime")
        for rec in recs:
            self.one(rec, R.POLICIES[self.n % len(R.POLICIES)], self.fixtures[self.n % len(self.fixtures)])

    def product(self, recs):
        """each record with every scalar policy on one fixture of every state type"""
        import obsexpr_replay as R
        kinds = ("positive", "complex", "density")
        for i, rec in enumerate(recs):
            for pol in R.POLICIES:
                for k in (kinds if rec["kind"] == "obs" else kinds[:1]):
                    fxs = [f for f in self.fixtures if f.kind == k]
                    self.one(rec, pol, fxs[(i + self.n) % len(fxs)])


def comparator_controls(chk, recs, fixtures, names, tier, seed):
    """Corrupted expectations must be rejected by the comparator (anti-vacuity)."""
    import numpy as np
    import obsexpr_replay as R
    fx = fixtures[1]
    LAST_DRIFT = []

    def verdict(rec, policy="int"):
        ctl = common.Check(PID, tier, seed)
        R.check_record(ctl, rec, fx, names, policy, seed)
        LAST_DRIFT[:] = getattr(ctl, "drift", [])
        return [k for k, _ in ctl.violations]

    acc = next(r for r in recs if r["fault"] == "none" and r["kind"] == "obs" and r["build"]["c"] == "Sum"
               and r["build"]["left"]["c"] != r["build"]["right"]["c"] and r["depth"] >= 2)
    if verdict(acc):
        raise common.MachineryError("control baseline does not hold: " + R.show(acc["e"]))
    c = copy.deepcopy(acc)
    c["lin"][0] = [c["lin"][0][0] + c["lin"][0][1], c["lin"][0][1]]          # constant term + 1
    chk.control(any(k.startswith("apply:") for k in verdict(c)), "expected constant term corrupted, apply compared equal")
    li = max(range(len(names)), key=lambda i: float(np.min(np.abs(fx.vals[names[i]]))))
    if float(np.min(np.abs(fx.vals[names[li]]))) > 1e-3:
        c = copy.deepcopy(acc)
        q = c["lin"][li + 1]
        c["lin"][li + 1] = [-q[0] if q[0] else 1, q[1]]                         # sign of a leaf coefficient
        chk.control(any(k.startswith("apply:") for k in verdict(c)), "expected leaf coefficient corrupted, apply compared equal")
    c = copy.deepcopy(acc)
    c["build"]["left"], c["build"]["right"] = c["build"]["right"], c["build"]["left"]
    verdict(c)
    chk.control(bool(LAST_DRIFT) and LAST_DRIFT[-1]["kind"] == "order", "expected left/right of a sum swapped, shapes compared equal")
    c = copy.deepcopy(acc)
    c["build"]["c"] = "Prod"
    verdict(c)
    chk.control(bool(LAST_DRIFT) and LAST_DRIFT[-1]["kind"] == "structure", "expected class changed, shapes compared equal")
    c = copy.deepcopy(acc)
    c["fault"] = "TypeError"
    chk.control(any(k.startswith("reject:accepted") for k in verdict(c)), "accepted tree expected to be rejected passed")
    rej = next(r for r in recs if r["fault"] == "ValueError")
    c = copy.deepcopy(rej)
    c["fault"] = "TypeError"
    chk.control(any(k.startswith("reject:wrong-exception") for k in verdict(c)), "ValueError passed as TypeError")
    c = copy.deepcopy(rej)
    c.update(fault="none", kind="obs")
    chk.control(any(k.startswith("construct:raised") for k in verdict(c)), "a tree the library rejects passed as accepted")
    rej = next(r for r in recs if r["fault"] == "TypeError")
    c = copy.deepcopy(rej)
    c["fault"] = "ValueError"
    chk.control(any(k.startswith("reject:wrong-exception") for k in verdict(c)), "TypeError passed as ValueError")
    # statistics comparator: population variance / biased standard error must not pass
    ref, scale = R.reference(acc, fx, names)
    good = R.expected_stats(ref)
    if R.stats_mismatch(good, ref, scale):
        raise common.MachineryError("statistics comparator rejects its own reference")
    n = len(ref)
    if float(np.ptp(ref)) > 0:
        pop = dict(good, variance=float(np.var(ref)), std_error=float(np.sqrt(np.var(ref) / n)))
        chk.control(R.stats_mismatch(pop, ref, scale) == "variance", "population variance accepted")
        chk.control(R.stats_mismatch(dict(good, std_error=float(np.sqrt(good["variance"] / (n - 1)))), ref, scale)
                    == "std_error", "std_error over n-1 accepted")
    chk.control(R.stats_mismatch(dict(good, num_samples=n + 1), ref, scale) == "num_samples", "wrong count accepted")
    chk.control(R.stats_mismatch(dict(good, mean=good["mean"] + 1e-6 * (1 + abs(good["mean"]))), ref, scale) == "mean",
                "shifted mean accepted")


def operand_integrity(chk, recs, fixtures, names, rng, n):
    """Expressions are values: building a bigger expression from an already built one must not change
    what the smaller one evaluates to (shared sub-expressions, the same object used twice).  In
    spec/ObsExpr.tla built objects are immutable values by construction; here the real objects are
    re-evaluated after being used as operands."""
    import numpy as np
    import obsexpr_replay as R
    pool = [r for r in recs if r["fault"] == "none" and r["kind"] == "obs" and r["build"]["c"] != "Leaf"]
    for i, rec in enumerate(rng.sample(pool, min(len(pool), n))):
        fx = fixtures[i % len(fixtures)]
        prng = __import__("random").Random(i)
        A = R.evaluate(rec["e"], fx.leaves, R.POLICIES[i % len(R.POLICIES)], prng)
        ref, scale = R.reference(rec, fx, names)
        leaf = fx.leaves[names[i % len(names)]]
        lv = fx.vals[names[i % len(names)]]
        uses = [("A + 1.5", lambda: A + 1.5, ref + 1.5), ("A - leaf", lambda: A - leaf, ref - lv),
                ("2 - A", lambda: 2 - A, 2 - ref), ("-A", lambda: -A, -ref), ("A * 3", lambda: A * 3, 3 * ref),
                ("A + A", lambda: A + A, 2 * ref), ("2*A - (A + leaf)", lambda: 2 * A - (A + leaf), ref - lv),
                ("(A + leaf) + (A + 2)", lambda: (A + leaf) + (A + 2), 2 * ref + lv + 2)]
        built = []
        for label, mk, want in uses:
            chk.evaluations += 1
            try:
                obj = mk()
                built.append((label, obj, want))
                got = np.asarray(obj.apply(fx.state, fx.batch.clone()), dtype=np.float64)
            except Exception as ex:          # noqa: BLE001
                chk.violation("reuse:raised", dict(expr=R.show(rec["e"]), use=label, error=repr(ex), fixture=fx.desc))
                break
            tol = 1e-12 * (6 * scale + 8 + 2 * abs(lv))
            if (abs(got - want) > tol).any():
                chk.violation("reuse:composite-of-shared-operand", dict(expr=R.show(rec["e"]), use=label,
                                                                       got=got.tolist()[:6], expected=want.tolist()[:6], fixture=fx.desc))
            again = np.asarray(A.apply(fx.state, fx.batch.clone()), dtype=np.float64)
            if (abs(again - ref) > 1e-12 * (scale + 1)).any():
                chk.violation("reuse:operand-changed-by-use", dict(expr=R.show(rec["e"]), after=label,
                                                                   got=again.tolist()[:6], expected=ref.tolist()[:6], fixture=fx.desc))
                break
        # earlier composites still evaluate to what they did
        for label, obj, want in built:
            got = np.asarray(obj.apply(fx.state, fx.batch.clone()), dtype=np.float64)
            if (abs(got - want) > 1e-12 * (6 * scale + 8 + 2 * abs(lv))).any():
                chk.violation("reuse:earlier-composite-changed", dict(expr=R.show(rec["e"]), use=label, fixture=fx.desc))
                break
        chk.nontriv(("reuse", i))


def extremes(chk, seed):
    """The same arithmetic at the edges: scalars of very small and very large magnitude (a coefficient of 1e-9 is
    not zero), numpy scalars, and batches far longer than any block an implementation may cut them into - with a
    leaf (SWAP) whose value on a row depends on the neighbouring rows of the batch it is GIVEN, so that a composite
    must hand every leaf the whole batch."""
    import numpy as np
    import torch
    import obsexpr_replay as R
    from qucumber.observables import SigmaZ, SigmaX, SigmaY, NeighbourInteraction, SWAP
    leaves = {"Z": SigmaZ, "X": SigmaX, "Y": SigmaY, "N": lambda: NeighbourInteraction(periodic_bcs=True, c=1), "S": lambda: SWAP([0])}
    T = lambda *a: a  # noqa: E731
    trees = [
        T("mul", 1e9, T("mul", 1e-9, "Z")), T("add", T("mul", 1e12, T("sub", T("mul", 3e-12, "X"), T("mul", 1e-12, "Z"))), 1),
        T("mul", T("mul", "Z", 1e-9), 1e9), T("mul", T("mul", np.float64(1e-10), "X"), 1e10),
        T("sub", T("mul", -1e-8, "N"), T("mul", "Y", 5e-9)), T("mul", 1e-300, T("mul", "Z", 1e300)),
        T("add", "S", 1), T("sub", 2.5, "S"), T("add", T("sub", T("neg", "N"), T("mul", 3, "X")), T("mul", 0.5, "S")),
        T("sub", T("add", "S", "Z"), T("mul", np.float64(2.0), "S")),
    ]

    def build(t, objs):
        if isinstance(t, str):
            return objs[t]
        if not isinstance(t, tuple):
            return t
        a = [build(x, objs) for x in t[1:]]
        return {"mul": lambda: a[0] * a[1], "add": lambda: a[0] + a[1], "sub": lambda: a[0] - a[1], "neg": lambda: -a[0]}[t[0]]()

    def value(t, vals):
        if isinstance(t, str):
            return vals[t]
        if not isinstance(t, tuple):
            return float(t)
        a = [value(x, vals) for x in t[1:]]
        return {"mul": lambda: a[0] * a[1], "add": lambda: a[0] + a[1], "sub": lambda: a[0] - a[1], "neg": lambda: -a[0]}[t[0]]()

    rng = random.Random(seed + 5)
    for kind in ("positive", "complex", "density"):
        st = R.make_state(kind, 3, 2, 2, rng.randrange(10 ** 6))
        for rows in (7, 1025, 2500):
            g = torch.Generator().manual_seed(rng.randrange(10 ** 6))
            batch = torch.randint(0, 2, (rows, 3), generator=g).to(torch.double)
            vals = {n: mk().apply(st, batch.clone()).detach().numpy().astype(np.float64) for n, mk in leaves.items()}
            for t in trees:
                if rows > 7 and "S" not in repr(t):
                    continue
                objs = {n: mk() for n, mk in leaves.items()}
                obs = build(t, objs)
                before = batch.clone()
                first = obs.apply(st, batch)
                got = first.detach().numpy().astype(np.float64)
                want = value(t, vals)
                chk.evaluations += 1
                if rows == 7:
                    # the caller still holds the first result when it evaluates the same object on another batch of
                    # the same shape (as statistics() does draw after draw): what it holds keeps its value
                    other = torch.randint(0, 2, (rows, 3), generator=g).to(torch.double)
                    obs.apply(st, other)
                    if not np.array_equal(first.detach().numpy().astype(np.float64), got):
                        chk.violation("extremes:earlier-result-overwritten", dict(state=kind, expression=repr(t)))
                        break
                scale = max(1.0, float(np.max(np.abs(want))))
                if got.shape != want.shape or np.max(np.abs(got - want)) > 1e-12 * scale or not torch.equal(batch, before):
                    w = int(np.argmax(np.abs(got - want))) if got.shape == want.shape else -1
                    chk.violation("extremes:%s" % ("long-batch" if rows > 7 else "scalar-magnitude"),
                                  dict(state=kind, rows=rows, expression=repr(t), worst_row=w,
                                       got=float(got[w]) if w >= 0 else None, expected=float(want[w]) if w >= 0 else None))
                    break
        chk.nontriv(("extremes", kind))
    # batches that are not double precision (0/1 data read as integers, float32 tensors): the composite must still be
    # the arithmetic on what each leaf returns for THAT batch (leaves that accept the dtype on their own; the
    # reference is computed in double precision from the leaves' own outputs, tolerance for single-precision leaves)
    dleaves = {"N": lambda: NeighbourInteraction(c=1), "P": lambda: NeighbourInteraction(periodic_bcs=True, c=2),
               "S": lambda: SWAP([0, 2])}
    dtrees = [T("mul", 0.5, "N"), T("mul", "P", 2.75), T("neg", "N"), T("sub", 1, "S"), T("sub", "N", T("mul", 1.5, "P")),
              T("add", T("mul", -0.25, "S"), T("mul", np.float64(3.5), "N")), T("sub", T("mul", 0.125, "P"), 2)]
    st = R.make_state("complex", 3, 2, 2, rng.randrange(10 ** 6))
    for dt in (torch.float32, torch.int64, torch.int32, torch.uint8, torch.bool):
        g = torch.Generator().manual_seed(rng.randrange(10 ** 6))
        batch = torch.randint(0, 2, (9, 3), generator=g).to(dt)
        try:
            vals = {n: mk().apply(st, batch.clone()).detach().numpy().astype(np.float64) for n, mk in dleaves.items()}
        except Exception as ex:       # a leaf that does not take this dtype by itself: nothing to compare with
            chk.assumptions.append("batches of dtype %s not judged (a leaf alone raises %s)" % (dt, type(ex).__name__))
            continue
        for t in dtrees:
            obs = build(t, {n: mk() for n, mk in dleaves.items()})
            before = batch.clone()
            chk.evaluations += 1
            try:
                got = obs.apply(st, batch).detach().numpy().astype(np.float64)
            except Exception as ex:
                chk.violation("extremes:batch-dtype", dict(dtype=str(dt), expression=repr(t), raised=repr(ex)[:300]))
                break
            want = value(t, vals)
            scale = max(1.0, float(np.max(np.abs(want))))
            if got.shape != want.shape or np.max(np.abs(got - want)) > 2e-6 * scale or not torch.equal(batch, before):
                chk.violation("extremes:batch-dtype", dict(dtype=str(dt), expression=repr(t), got=got.tolist()[:4],
                                                           expected=want.tolist()[:4]))
                break
        chk.nontriv(("extremes", str(dt)))


def spec_controls(chk, names, variants):
    """Seeded faults inside the specification's model of the overloads: TLC must find them."""
    for v, inv in variants:
        res = model(names, 2, variant=v, export=False, timeout=300, invariants=[inv])
        # not added to the state totals: a run that stops at a violation has a schedule-dependent count
        chk.extra.setdefault("tlc_controls", []).append(dict(variant=v, must_violate=inv, violated=res.violation))
        chk.control(res.violation == inv, "specification variant %s satisfies %s" % (v, inv))


def run(tier, seed):
    chk = common.Check(PID, tier, seed)
    rng = random.Random(seed)
    quick = tier == "quick"
    names3 = ["A", "B", "C"]
    chk.rule = ("TLC: stack-machine generation of every expression tree over 3 leaves, scalars {-3,-1,0,1/2,1,2} and "
                "non-numeric operands {str, None} to depth %d (atoms have depth 1), seeded simulation to depth %d; "
                "every exported tree is evaluated with the real operators (scalars rendered as int / float / "
                "numpy.float64 / bool / mixed, both operand sides) on PositiveWaveFunction / ComplexWaveFunction / "
                "DensityMatrix states with random non-zero parameters; non-trivial = accepted composites whose "
                "reference vector is not constant over the batch (shape, apply, statistics_from_samples compared) "
                "and rejected trees (exception class compared)" % ((2, 4) if quick else (3, 6)))
    common.import_qucumber()
    import obsexpr_replay as R

    # ---- TLC, exhaustive ---------------------------------------------------------
    t0 = time.time()
    exhaustive = []
    shards = ["LeafAtoms \\cup NumAtoms \\cup BadAtoms"] if quick else ["LeafAtoms", "NumAtoms", "BadAtoms"]
    for sh in shards:
        res = model(names3, 2 if quick else 3, first=sh, timeout=1500)
        chk.add_tlc(res, "exhaustive depth<=%d first atom in %s" % (2 if quick else 3, sh))
        if res.violation:
            chk.violation("spec:" + str(res.violation), dict(tlc=res.raw[-4000:]))
            return chk.finish()
        exhaustive.append(res.exports)
        res.exports = None
    # ---- TLC, simulation ----------------------------------------------------------
    sims = []
    plan = [(names3, 3, 60, 30), (names3, 4, 250, 40)] if quick else \
        [(names3, 4, 600, 40), (names3, 5, 1000, 60), (names3 + ["D"], 6, 1800, 90)]
    for names, md, num, ln in plan:
        res = model(names, md, simulate="num=%d" % num, sim_len=ln, seed=seed % (2 ** 31), timeout=1500)
        chk.add_tlc(res, "simulation depth<=%d leaves=%d traces=%dx%d" % (md, len(names), num, WORKERS))
        if res.violation:
            chk.violation("spec:" + str(res.violation), dict(tlc=res.raw[-4000:]))
            return chk.finish()
        u = [r for r in unique(res.exports) if r["depth"] >= 3]
        sims.append((names, u))
        res.exports = None
    chk.extra["tlc_wall_s"] = round(time.time() - t0, 1)

    # ---- spec -> code ------------------------------------------------------------
    t0 = time.time()
    fx3 = R.make_fixtures(seed, names3, [2, 3] if quick else [2, 3, 4], 3 if quick else 4)
    rp = Replayer(chk, fx3, names3, seed)
    small = []
    for exp in exhaustive:
        small += [r for r in exp if r["depth"] <= 2]
    small = unique(small)
    rp.product(small)                                  # every tree of depth <= 2: all policies x all state types
    for exp in exhaustive:                             # depth 3 (thorough): rotating policy / fixture
        rp.rotate([r for r in exp if r["depth"] >= 3])
    counts = dict(depth_le2_trees=len(small), exhaustive_trees=sum(len(x) for x in exhaustive))
    ctl_recs = small
    del exhaustive
    for names, recs in sims:
        cap = 1500 if quick else 60000
        if len(recs) > cap:
            recs = rng.sample(recs, cap)
        counts["simulated_trees_depth<=%d" % max(r["depth"] for r in recs)] = len(recs)
        if names == names3:
            rps = rp
        else:
            rps = Replayer(chk, R.make_fixtures(seed + 1, names, [2, 3, 4], 3), names, seed + 10 ** 6)
        rps.rotate(recs)
        if rps is not rp:
            for k in ("tags", "depths", "by_policy", "by_state"):
                for a, b in getattr(rps, k).items():
                    getattr(rp, k)[a] = getattr(rp, k).get(a, 0) + b
        # statistics() of composites on a short seeded chain (draws observed, not re-implemented)
        pool = [r for r in recs if r["fault"] == "none" and r["kind"] == "obs" and r["build"]["c"] != "Leaf"]
        nst = 0
        for i, rec in enumerate(rng.sample(pool, min(len(pool), 40 if quick else 400))):
            fx = rps.fixtures[i % len(rps.fixtures)]
            nst += R.check_statistics(chk, rec, fx, names, R.POLICIES[i % len(R.POLICIES)], rng, seed + i)
        counts["statistics_chain_draws"] = counts.get("statistics_chain_draws", 0) + nst
    chk.extra.update(counts=counts, replay_outcomes=rp.tags, nontrivial_by_depth=rp.depths,
                     nontrivial_by_scalar_policy=rp.by_policy, nontrivial_by_state=rp.by_state,
                     replay_wall_s=round(time.time() - t0, 1))
    for need in ("ok", "rejected"):
        if not rp.tags.get(need) and not chk.violations:
            raise common.MachineryError("no replay ended as %r" % need)

    # ---- conformance drift: constructed object graphs that differ from Build(e) -----
    drift = getattr(chk, "drift", [])
    chk.extra["shape_drift"] = dict(order=sum(1 for d in drift if d["kind"] == "order"),
                                    structure=sum(1 for d in drift if d["kind"] == "structure"))
    if drift and not chk.violations:
        struct = [d for d in drift if d["kind"] == "structure"]
        d = (struct or drift)[0]
        if struct:
            raise common.MachineryError(
                "specification drift, not a violation: values agree but the constructed objects differ from Build(e) "
                "in %d replays, e.g. %s built %s, specification says %s - update spec/ObsExpr.tla"
                % (len(struct), d["expr"], json.dumps(d["got"]), json.dumps(d["record"]["build"])))
        chk.assumptions.append("operand order inside SumObservable differs from the specification's Build(e) in %d "
                               "replays (symmetric alternative, values agree), e.g. %s" % (len(drift), d["expr"]))

    operand_integrity(chk, small, fx3, names3, rng, 120 if quick else 1500)
    extremes(chk, seed)
    # code -> spec: programs of the stack machine run with the real operators, validated step by step
    import obsexpr_trace
    obsexpr_trace.phase(chk, tier, random.Random(seed + 81))

    # ---- negative controls (they presuppose a baseline that holds) -------------------
    if chk.violations:
        return chk.finish()
    comparator_controls(chk, ctl_recs, fx3, names3, tier, seed)
    spec_controls(chk, names3, VARIANTS[:3] if quick else VARIANTS)

    chk.assumptions += [
        "scalars are Python int / float and their subclasses bool and numpy.float64 (numpy.int64, numpy.float32, "
        "complex, tensors are outside the property and not judged); non-numeric operands are str and None",
        "a non-numeric operand is only placed directly beside an observable operand (num op str etc. is plain Python)",
        "coefficients are dyadic rationals bounded by 4096, so the reference arithmetic is exact in binary floating "
        "point; tolerance 1e-12 relative to the magnitude form sum |c_L||leaf_L| exported by the specification",
        "Python's binary-operator dispatch (reflected method when the left operand's type declines) and exception "
        "propagation are modelled in the specification and trusted as the language semantics; numpy.float64 as left "
        "operand reaches the reflected method through numpy's object fallback (observed, scalar arrives as float)",
        "leaf observables: SigmaZ, SigmaX, SigmaY, NeighbourInteraction (open / periodic), absolute variants, SWAP "
        "(thorough); states nv <= 4 on CPU; statistics() only on seeded short chains with num_chains >= 2",
    ]
    return chk.finish(exhaustive=True)


def replay(path):
    """./check C16 --replay <file>: re-run one recorded violation against the working tree."""
    common.import_qucumber()
    import obsexpr_replay as R
    with open(path) as fh:
        blob = json.load(fh)
    d = blob["detail"]
    if "record" not in d:
        print("replay file holds no tree record:", blob["key"])
        return 2
    fx = R.build_fixture(0, d["fixture"])
    chk = common.Check(PID, "replay", 0)
    tag = R.check_record(chk, d["record"], fx, d["fixture"]["names"], d["policy"], d["rseed"])
    print("expr:", d["expr"], "policy:", d["policy"], "state:", d["fixture"]["kind"], "->", tag)
    for k, det in chk.violations:
        print("VIOLATION property=%s replay=%s" % (PID, path))
        print("  key=%s" % k)
        print("  " + json.dumps({x: det[x] for x in det if x in ("got", "expected")}, default=str)[:600])
    return 1 if chk.violations else 0
