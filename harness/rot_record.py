"""code -> spec recorder for C04, through the public interface only.

KronSweep.tla processes the tensor factors from the last site to the first; after the sites s..n-1 the array
is Dense(Z..Z b_s..b_{n-1}) x.  That intermediate is itself a public result: rotate_psi with the basis whose first
s letters are replaced by Z.  A psi trace is the sequence of those n public results (one `site` event per
site, last site first) and TraceKron.tla accepts it iff each one is KronSweep's SweepSite applied to the one before.
The intermediates of rotate_rho (U rho before the conjugate step, ...) are not public results, so a rho trace is
`result-only`: the specification's sweep, conjugate step and second sweep run silently and must end in the
recorded rotate_rho result - for the basis itself and for each of its Z-prefixed suffixes.

(An earlier recorder wrapped qucumber.utils.cplx.matmul and reconstructed the intermediates from the views handed
to it.  That bound the trace to HOW _kron_mult calls matmul - one 2x2 product per strided slice - and a
behaviour-preserving vectorisation of _kron_mult was rejected: a false alarm, see DESIGN.md Corrections.)"""
import json
import os
import shutil
import tempfile

import common
import tlc
from rot_lib import to_gauss, sqrt2pow, INT_TOL


def build_trace(kind, letters, x, rotate, fac, fam="gen"):
    """rotate(basis letters) -> the library's public result for that basis on the fixed explicit input.
    Returns (list of trace dicts | None, problem | None)."""
    n = len(letters)
    letters = list(letters)
    if kind == "psi":
        ev, f_done = [], 0
        for s in range(n - 1, -1, -1):                  # library site s (0-based), last first
            part = ["Z"] * s + letters[s:]
            f_done += fac.get(letters[s], 0)
            y, err = to_gauss(rotate(part), sqrt2pow(f_done))
            if err > INT_TOL:
                return None, dict(why="non-integer result for a Z-prefixed suffix of the basis", basis="".join(part), err=err)
            ev.append(dict(e="site", s=s, b=letters[s], y=y))
        return [dict(basis=letters, kind=kind, fam=fam, mode="sites", x=x, ev=ev, fin=ev[-1]["y"])], None
    out = []
    for s in range(n - 1, -1, -1):
        part = ["Z"] * s + letters[s:]
        nf = sum(fac.get(b, 0) for b in part)
        fin, err = to_gauss(rotate(part), sqrt2pow(2 * nf))
        if err > INT_TOL:
            return None, dict(why="non-integer rotate_rho result", basis="".join(part), err=err)
        out.append(dict(basis=part, kind=kind, fam=fam, mode="result", x=x, ev=[], fin=fin))
    return out, None


def malformed(tr):
    """shape pre-check: TraceKron is total only on well-shaped events"""
    n = len(tr["basis"])
    N = 2 ** n

    def shape_ok(y):
        if len(y) != N:
            return False
        if tr["kind"] == "psi":
            return all(len(e) == 2 for e in y)
        return all(len(row) == N and all(len(e) == 2 for e in row) for row in y)

    for j, e in enumerate(tr["ev"]):
        if e["e"] not in ("site", "conj") or not shape_ok(e["y"]):
            return j
        if e["e"] == "site" and not isinstance(e["s"], int):
            return j
    if not shape_ok(tr["fin"]):
        return len(tr["ev"])
    return None


INVARIANTS = ["TypeOK", "Strides", "SlicesPartition", "SweepRefinesDense", "RhoRotated", "Physical"]


def validate(lines, timeout=900):
    d = tempfile.mkdtemp(prefix="verif-kron-")
    try:
        path = os.path.join(d, "traces.ndjson")
        with open(path, "w") as fh:
            for ln in lines:
                fh.write(json.dumps(ln) + "\n")
        res = tlc.run("TraceKron", defs={"BasisSet": "{}", "GenPsi(m)": "NoInputs(m)", "GenRho(m)": "NoInputs(m)",
                                         "GenGram(m)": "NoInputs(m)", "Selected(b, kd, f)": "Never(b, kd, f)",
                                         "Exported(b, kd, f)": "Never(b, kd, f)"},
                      init="TInit", next="TNext", constraints=["Track"], postcondition="Verdicts",
                      invariants=INVARIANTS, workers=1, timeout=timeout, env={"TRACE_FILE": path, "JAVA_TOOL_OPTIONS": "-Xss64m"})
    finally:
        shutil.rmtree(d, ignore_errors=True)
    verdict = {e["tid"]: e for e in res.exports if isinstance(e, dict) and "tid" in e}
    acc, matched = [], []
    for i in range(1, len(lines) + 1):
        v = verdict.get(i)
        if v is None:
            raise common.MachineryError("no verdict for trace %d\n%s" % (i, res.raw[-3000:]))
        acc.append(v["matched"] == v["need"])
        matched.append(v["matched"])
    return res, acc, matched
