"""code -> spec recorder for C04: run the real rotate_psi / rotate_rho with
qucumber.utils.cplx.matmul wrapped (observation only, restored in `finally`) and
reconstruct the per-site intermediates of _kron_mult as events of spec/TraceKron.tla.

What is observed per matmul call: the 2x2 matrix (identified with a dictionary letter by
value), the slice handed over - a view of the array y being rotated, so its base is y, its
storage offset and stride give the slice start and the stride r - and the moment of the
call (y as it is after all earlier sites).  Nothing is altered."""
import json
import math
import os
import shutil
import tempfile

import torch

import common
import tlc
from rot_lib import cplx, un, to_gauss, sqrt2pow, INT_TOL


class Unobservable(common.MachineryError):
    pass


class KronRecorder:
    def __init__(self):
        self.calls = []       # dicts: m, base, r, start, snap (y before this call if first call of a site)

    def __enter__(self):
        self._orig = cplx.matmul
        rec = self

        def wrapped(m, temp):
            base = temp._base
            if base is None or temp.dim() < 2:
                raise Unobservable("matmul operand is not a view of the rotated array")
            unit = base.stride(1)
            r = temp.stride(1) // unit if temp.shape[1] > 1 else None
            start = temp.storage_offset() // unit
            prev = rec.calls[-1] if rec.calls else None
            new_site = prev is None or prev["base"] is not base or prev["r"] != r
            rec.calls.append(dict(m=m.detach().clone(), base=base, r=r, start=start,
                                  snap=base.detach().clone() if new_site else None, new=new_site,
                                  len=temp.shape[1]))
            return rec._orig(m, temp)

        cplx.matmul = wrapped
        return self

    def __exit__(self, *a):
        cplx.matmul = self._orig
        return False


def letter_of(m, dictionary):
    for k, v in dictionary.items():
        if v.shape == m.shape and torch.equal(v.to(m), m):
            return k
    return "?"


def build_trace(kind, letters, x, call, dictionary, fac, fam="gen"):
    """call(): runs the library function and returns its result.  Returns (trace dict | None, problem | None)."""
    n = len(letters)
    with KronRecorder() as rec:
        out = call()
    calls = rec.calls
    # group calls into sites
    sites = []
    for c in calls:
        if c["new"]:
            sites.append(dict(first=c, count=0))
        sites[-1]["count"] += 1
    # sweeps: a new base tensor starts a new sweep
    ev = []
    nf_total = sum(fac[b] for b in letters)
    sweep_no, f_done = 0, 0
    prev_base = None
    for j, st in enumerate(sites):
        c = st["first"]
        if c["base"] is not prev_base:
            sweep_no += 1
            f_done = 0
            if sweep_no == 2:
                y, err = to_gauss(c["snap"], sqrt2pow(nf_total))
                if err > INT_TOL:
                    return None, dict(why="non-integer array after the conjugate step", err=err)
                ev.append(dict(e="conj", y=y))
            prev_base = c["base"]
        # the array after this site: the snapshot taken at the first call of the next site of the
        # same sweep, else the base tensor as it is now (the sweep has finished)
        nxt = sites[j + 1]["first"] if j + 1 < len(sites) and sites[j + 1]["first"]["base"] is c["base"] else None
        after = nxt["snap"] if nxt is not None else c["base"].detach().clone()
        b = letter_of(c["m"], dictionary)
        f_done += fac.get(b, 0)
        scale = sqrt2pow(f_done + (nf_total if sweep_no == 2 else 0))
        y, err = to_gauss(after, scale)
        if err > INT_TOL:
            return None, dict(why="non-integer intermediate", site=j, err=err)
        r = c["r"]
        if r is None:       # a slice of length one cannot happen for 2x2 blocks
            return None, dict(why="slice of length %d" % c["len"], site=j)
        s_lib = n - 1 - int(round(math.log2(r))) if r > 0 else -1
        ev.append(dict(e="site", s=s_lib, r=int(r), b=b, calls=st["count"], y=y))
    scale = sqrt2pow(nf_total * (2 if kind == "rho" else 1))
    fin, err = to_gauss(out, scale)
    if err > INT_TOL:
        return None, dict(why="non-integer result", err=err)
    return dict(basis=list(letters), kind=kind, fam=fam, x=x, ev=ev, fin=fin), None


def malformed(tr):
    """shape pre-check: TraceKron is total only on well-shaped events"""
    n = len(tr["basis"])
    N = 2 ** n

    def shape_ok(y):
        if len(y) != N:
            return False
        if tr["kind"] == "psi":
            return all(len(e) == 2 for e in y)
        return all(len(row) == N and all(len(e) == 2 for e in row) for row in y)

    for j, e in enumerate(tr["ev"]):
        if e["e"] not in ("site", "conj") or not shape_ok(e["y"]):
            return j
        if e["e"] == "site" and not all(isinstance(e[k], int) for k in ("s", "r", "calls")):
            return j
    if not shape_ok(tr["fin"]):
        return len(tr["ev"])
    return None


INVARIANTS = ["TypeOK", "Strides", "SlicesPartition", "SweepRefinesDense", "RhoRotated", "Physical"]


def validate(lines, timeout=900):
    d = tempfile.mkdtemp(prefix="verif-kron-")
    try:
        path = os.path.join(d, "traces.ndjson")
        with open(path, "w") as fh:
            for ln in lines:
                fh.write(json.dumps(ln) + "\n")
        res = tlc.run("TraceKron", defs={"BasisSet": "{}", "GenPsi(m)": "NoInputs(m)", "GenRho(m)": "NoInputs(m)",
                                         "GenGram(m)": "NoInputs(m)", "Selected(b, kd, f)": "Never(b, kd, f)",
                                         "Exported(b, kd, f)": "Never(b, kd, f)"},
                      init="TInit", next="TNext", constraints=["Track"], postcondition="Verdicts",
                      invariants=INVARIANTS, workers=1, timeout=timeout, env={"TRACE_FILE": path, "JAVA_TOOL_OPTIONS": "-Xss64m"})
    finally:
        shutil.rmtree(d, ignore_errors=True)
    verdict = {e["tid"]: e for e in res.exports if isinstance(e, dict) and "tid" in e}
    acc, matched = [], []
    for i in range(1, len(lines) + 1):
        v = verdict.get(i)
        if v is None:
            raise common.MachineryError("no verdict for trace %d\n%s" % (i, res.raw[-3000:]))
        acc.append(v["matched"] == v["need"])
        matched.append(v["matched"])
    return res, acc, matched
