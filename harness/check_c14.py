"""C14 - Seeded runs are reproducible and evaluation never alters the model.

spec/Lifecycle.tla models a session as a sequence of public operations; parameters,
generator state and results are uninterpreted terms.  TLC explores every operation
sequence (after the forced prefix Seed, Construct) of a bounded length over the whole
catalogue for the three state types, as the product of three runs (reference / other
random sources perturbed / other seed), checking the catalogue (write-set and generator
effect per operation) against the operation programs and the agreement of the runs.

Binding: histories exported by TLC (exhaustive short ones, seeded simulation to depth 14)
and randomised histories outside the explored bounds are executed three times on the real
classes; hashes of every network's parameters, of torch's generator state and of every
result are recorded after each operation and validated by spec/TraceOps.tla, which steps
the same specification along the recorded operations.
"""
import copy
import json
import os
import random
import re
import shutil
import tempfile

import numpy as np
import torch

import common
import tlc
import lifecycle_ops as lo

PID = "C14"
TYPES = ["positive", "complex", "density"]
INV = ["TypeOK", "ReadOnlyKeepsParams", "RNGDiscipline", "InertUnderStop", "TwoRunsAgree", "SeedsDiffer",
       "LoadRestores"]

STATS_FULL = ('{<<"obs",1,1,2,FALSE>>, <<"obs",0,0,1,TRUE>>, <<"obs",0,1,2,TRUE>>, <<"sys",0,0,2,TRUE>>, '
              '<<"sys",2,0,1,FALSE>>, <<"obs",0,0,1,FALSE>>}')
STATS_SMALL = '{<<"obs",1,1,2,FALSE>>, <<"obs",0,0,1,TRUE>>, <<"obs",0,1,2,TRUE>>, <<"sys",0,0,2,TRUE>>}'


def tla_set(xs):
    return "{" + ", ".join('"%s"' % x if isinstance(x, str) else str(x) for x in xs) + "}"


def defs(types=TYPES, evals=("psi",), ks="{0, 1}", ns="{3, 64}", stats=STATS_SMALL,
         fits="{<<0,0,1>>, <<1,1,1>>, <<1,0,0>>}", seeds="{1, 2}", readers="{}"):
    return {"Types": tla_set(types), "Seeds": seeds, "Ks": ks, "SampleNs": ns, "StatsArgs": stats,
            "EvalFns": tla_set(evals), "FitArgs": fits, "NpReaders": readers}


def mc(maxlen, d, require_seed=True, invariants=INV, timeout=900, **kw):
    return tlc.run("Lifecycle", constants={"MaxLen": maxlen, "RequireSeed": require_seed, "Export": False},
                   defs=d, invariants=invariants, extra_text="ASSUME TableSound", timeout=timeout, **kw)


def export(maxlen, d, simulate=None, seed=None, timeout=600, where="n = MaxLen"):
    """Histories of exactly `maxlen` operations (all of them by breadth-first search, or
    `simulate` random ones) that satisfy the TLA+ predicate `where`."""
    res = tlc.run("Lifecycle", constants={"MaxLen": maxlen, "RequireSeed": True, "Export": True}, defs=d,
                  invariants=INV + ["MC_Export"], extends_extra=["Json"],
                  extra_text="ASSUME TableSound\nMC_Export == (%s) => "
                             "PrintT(ToJson([type |-> type, hist |-> hist]))" % where,
                  workers=1 if simulate else 8, timeout=timeout,
                  simulate=("num=%d" % simulate) if simulate else None,
                  depth=(maxlen + 1) if simulate else None, seed=seed)
    return res


def validate(lines, timeout=1800):
    d = tempfile.mkdtemp(prefix="verif-ops-")
    try:
        path = os.path.join(d, "ops.ndjson")
        with open(path, "w") as fh:
            for ln in lines:
                fh.write(json.dumps(ln) + "\n")
        res = tlc.run("TraceOps", constants={"MaxLen": 0, "RequireSeed": True, "Export": False},
                      defs=defs(), init="TInit", next="TStep", constraints=["Track"], postcondition="Verdicts",
                      invariants=["TReadOnlyKeepsParams", "TRNGDiscipline", "TTwoRunsAgree"],
                      workers=1, timeout=timeout, env={"TRACE_FILE": path})
    finally:
        shutil.rmtree(d, ignore_errors=True)
    verdict = {e["tid"]: e for e in res.exports if isinstance(e, dict) and "tid" in e}
    acc, matched = [], []
    for i in range(1, len(lines) + 1):
        if i not in verdict:
            raise common.MachineryError("no verdict for session %d\n%s" % (i, res.raw[-3000:]))
        acc.append(verdict[i]["matched"] == verdict[i]["need"])
        matched.append(verdict[i]["matched"])
    return res, acc, matched


def opkey(op):
    return op["o"] + (":" + op["f"] if op["f"] else "")


def random_history(rng, typ):
    """A session outside the bounds TLC explored: longer, larger arguments."""
    fns = lo.eval_fns(typ)
    h = [lo.mkop("Seed", k=rng.randint(0, 50)), lo.mkop("Construct")]
    saved, L = False, rng.randint(6, 22)
    while len(h) < L:
        c = rng.random()
        if c < 0.07:
            op = lo.mkop("Seed", k=rng.randint(0, 50))
        elif c < 0.12:
            op = lo.mkop(rng.choice(["Construct", "Reinit", "Reinit"]))
        elif c < 0.27:
            op = lo.mkop(rng.choice(["Sample", "Sample", "ObsSample"]), k=rng.choice([0, 0, 1, 2, 5]),
                         n=rng.choice([1, 2, 7, 64, 100]), init=rng.random() < 0.5)
        elif c < 0.37:
            op = lo.mkop("Stats", f=rng.choice(["obs", "sys"]), k=rng.choice([0, 0, 1, 3]), n=rng.choice([0, 1, 2]),
                         e=rng.randint(1, 4), init=rng.random() < 0.5)
        elif c < 0.62:
            op = lo.mkop("Eval", f=rng.choice(fns))
        elif c < 0.68:
            op = lo.mkop("BatchGrads", k=rng.choice([0, 1, 3]))
        elif c < 0.76:
            op = lo.mkop("Save")
            saved = True
        elif c < 0.82:
            if not saved:
                continue
            op = lo.mkop("Load")
        elif c < 0.86:
            op = lo.mkop("SetStop", init=rng.random() < 0.4)
        elif c < 0.95:
            op = lo.mkop("Fit", k=rng.choice([0, 1, 2, 3]), n=rng.choice([0, 1]), e=rng.choice([0, 1, 2, 3]))
        else:
            if h[-1]["o"] == "Perturb":
                continue
            op = lo.mkop("Perturb")
        h.append(op)
    return h


def execute_history(chk, typ, hist, sid, key, hooks=None, big=False):
    """-> (trace line or None, raw).  An exception inside an operation is a violation."""
    sess = lo.Session(typ, sid, big=big)
    try:
        line, raw = lo.product(sess, hist, garbage_seed=chk.seed, hooks=hooks)
    except common.MachineryError:
        raise
    except Exception as ex:         # a public call raised on a legal history
        import traceback
        tb = traceback.extract_tb(ex.__traceback__)
        where = [f for f in tb if "lifecycle_ops" in f.filename and f.name in ("execute", "_eval")]
        chk.violation("%s:exception:%s:%s" % (key, type(ex).__name__, typ),
                      dict(type=typ, hist=hist, session=sid, big=big, error=repr(ex), at=str(tb[-1]),
                           harness_frame=str(where[-1:]), nv=sess.nv, nh=sess.nh, na=sess.na))
        return None, None
    chk.evaluations += 3 * len(hist)
    return line, raw


def compare_ab(chk, typ, hist, raw, key, sid="", big=False):
    """Plain equality of the two identically seeded token streams (specific violation keys)."""
    ok = True
    for i, op in enumerate(hist):
        a, b = raw["a"][i], raw["b"][i]
        for f in ("pv", "rng", "out", "stop"):
            if a[f] != b[f]:
                chk.violation("%s:ab-diff:%s:%s" % (key, opkey(op), f),
                              dict(type=typ, hist=hist, session=sid, big=big, at=i, op=op, field=f, a=a[f], b=b[f],
                                   why="two runs after the same seed differ"))
                return False
    return ok


def replay(path):
    """./check C14 --replay <file>: re-execute the recorded session three times on the current
    working tree and validate it again."""
    with open(path) as fh:
        rec = json.load(fh)
    d = rec["detail"]
    chk = common.Check(PID, "replay", int(d.get("seed", 0)))
    line, raw = execute_history(chk, d["type"], d["hist"], d["session"], "replay", big=d.get("big", False))
    if line is not None:
        compare_ab(chk, d["type"], d["hist"], raw, "replay", d["session"])
        tres, acc, matched = validate([line])
        if not acc[0]:
            print("rejected at event %d: %s" % (matched[0], json.dumps(lo.describe(line["ev"], matched[0]))))
            chk.violations.append(("rejected", {}))
    for k, det in chk.violations:
        print(k, json.dumps(det, default=str)[:400])
    print("reproduced" if chk.violations else "not reproduced (session is accepted)")
    return 1 if chk.violations else 0


def extra_determinism(chk, seed):
    """(1) The same seeded operation on the SAME live object: after set_random_seed(s) an operation gives what
    it gave the first time (same seed, same parameters) and what a never-used copy of the model gives - nothing
    remembered from earlier calls may enter.  (2) Separate interpreter runs with different PYTHONHASHSEED
    (the interpreter's own per-process random source) give bit-identical seeded results."""
    import copy
    import os
    import subprocess
    import sys
    import torch
    import numpy as np
    import lifecycle_ops as LO
    qc = LO.qucumber
    from qucumber.observables import SigmaZ, SigmaX, NeighbourInteraction, System

    def tok(x):
        return common.sha(LO.to_bytes(x))
    ops = [("sample(k=2,n=5)", lambda st: st.sample(k=2, num_samples=5)),
           ("sample(k=0,n=5)", lambda st: st.sample(k=0, num_samples=5)),
           ("sample(k=1,n=5) again", lambda st: st.sample(k=1, num_samples=5)),
           ("SigmaX.sample", lambda st: SigmaX().sample(st, 2, num_samples=5)),
           ("statistics(12, chains=4)", lambda st: SigmaZ().statistics(st, 12, num_chains=4, burn_in=2, steps=1)),
           ("System.statistics", lambda st: System(SigmaZ(), NeighbourInteraction(c=1)).statistics(st, 8, num_chains=4, burn_in=1))]
    for typ in ("positive", "complex", "density"):
        qc.set_random_seed(seed + 11, cpu=True, gpu=False, quiet=True)
        st = LO.make_state(typ, 3, 2, 2)
        fresh = copy.deepcopy(st)                       # identical parameters, never used
        for name, op in ops:
            res = []
            for obj in (st, st, copy.deepcopy(fresh)):
                qc.set_random_seed(seed + 5, cpu=True, gpu=False, quiet=True)
                res.append(tok(op(obj)))
            chk.evaluations += 1
            if res[0] != res[1]:
                chk.violation("reseed:same-object:" + typ, dict(op=name, why="after re-seeding with the same seed the same "
                              "operation on the same model gave another result", tokens=res))
            if res[0] != res[2]:
                chk.violation("reseed:used-vs-unused-model:" + typ, dict(op=name, why="a model that was sampled from before and a "
                              "never-used copy with identical parameters give different seeded results", tokens=res))
        chk.nontriv(("reseed", typ))
    child = os.path.join(os.path.dirname(os.path.abspath(__file__)), "c14_child.py")
    outs = {}
    for hs in ("1", "2", "3"):
        env = dict(os.environ, PYTHONHASHSEED=hs)
        p = subprocess.run([sys.executable, "-B", child, str(seed % 100000)], env=env, stdout=subprocess.PIPE,
                           stderr=subprocess.PIPE, text=True, timeout=1800)
        if p.returncode != 0:
            raise common.MachineryError("c14_child failed: " + p.stderr[-1500:])
        outs[hs] = [l.split()[1:] for l in p.stdout.splitlines() if l.startswith("RESULT")]
    base = outs["1"]
    if len(base) < 10:
        raise common.MachineryError("c14_child printed too little")
    for hs in ("2", "3"):
        for a, b in zip(base, outs[hs]):
            chk.evaluations += 1
            if a != b:
                chk.violation("cross-process:hash-seed-dependent:%s:%s" % (a[0], a[1]),
                              dict(why="the same seeded session gives different bits in interpreters that differ only in "
                                       "PYTHONHASHSEED", run1=a, other=b, hashseed=hs))
    chk.nontriv("cross-process")
    chk.extra["cross_process_runs"] = 3


def run(tier, seed):
    chk = common.Check(PID, tier, seed)
    rng = random.Random(seed)
    quick = tier == "quick"
    chk.rule = ("TLC: every sequence of operations (after Seed, Construct) of the stated length over the catalogue "
                "x 3 state types, product of three runs; seeded simulation to depth 14.  Binding: every exported "
                "history (thorough tier: a seeded sample of 8000 of the two-operation histories) and randomised longer histories executed 3x (reference / numpy+random reseeded from "
                "garbage between operations and generator scrambled before the first seed / other seed), token "
                "streams validated by TraceOps.tla.  Non-trivial = session with >= 1 drawing and >= 1 writing "
                "operation after construction")
    # ---- 1. exhaustive model checking -------------------------------------------------
    runs = [("full catalogue, 3 free operations", 5, defs(stats=STATS_FULL, ks="{0, 1, 2}" if not quick else "{0, 1}"))]
    small = defs(ks="{1}", ns="{64}", stats='{<<"obs",0,1,2,TRUE>>, <<"sys",0,0,2,TRUE>>}',
                 fits="{<<1,1,1>>}", seeds="{1}")
    if quick:
        runs.append(("reduced catalogue, 4 free operations", 6, small))
    else:
        runs.append(("full catalogue, 4 free operations", 6, defs(stats=STATS_SMALL)))
        runs.append(("reduced catalogue, 5 free operations", 7, small))
    for label, L, d in runs:
        res = mc(L, d, timeout=3000)
        chk.add_tlc(res, "Lifecycle.tla " + label)
        if res.violation:
            chk.violation("spec:" + str(res.violation), dict(run=label, tlc=res.raw[-4000:]))
            return chk.finish()
    # anti-vacuity of the product construction: a specification in which fit consults numpy,
    # or in which sessions need not start with Seed, must violate TwoRunsAgree
    res = mc(5, defs(readers='{"Fit"}'), timeout=600)
    chk.control(res.violation == "TwoRunsAgree", "a fit that reads numpy.random did not violate TwoRunsAgree")
    res = mc(4, defs(), require_seed=False, timeout=600)
    chk.control(res.violation == "TwoRunsAgree", "sessions that do not start with Seed did not violate TwoRunsAgree")
    if not quick:
        res = mc(5, defs(readers='{"Sample"}'), timeout=600)
        chk.control(res.violation == "TwoRunsAgree", "a sampler that reads `random` did not violate TwoRunsAgree")

    # ---- 2. spec -> code: exported histories ------------------------------------------
    sessions = []            # (typ, hist, origin)
    allfns = sorted(set(f for t in TYPES for f in lo.eval_fns(t)))
    L = 3 if quick else 4
    res = export(L, defs(evals=allfns, stats=STATS_FULL, ks="{0, 2}"))
    chk.add_tlc(res, "Lifecycle.tla export (all histories of %d operations)" % L)
    if res.violation:
        chk.violation("spec:" + str(res.violation), dict(tlc=res.raw[-4000:]))
        return chk.finish()
    cand = [e for e in res.exports     # an evaluation that does not exist for the state type is not a session
            if all(op["o"] != "Eval" or op["f"] in lo.eval_fns(e["type"]) for op in e["hist"])]
    if len(cand) > 8000:               # thorough tier: a seeded sample of the pairs
        cand = rng.sample(cand, 8000)
    for e in cand:
        sessions.append((e["type"], e["hist"], "bfs"))
    # pairs whose first operation changes session state other than the parameters
    # (stop flag, saved file, seed): all second operations of a reduced catalogue
    # and Save ; writer ; Load
    res = export(5, defs(evals=["prob"], ks="{1}", ns="{64}", stats='{<<"obs",0,1,2,TRUE>>}',
                         fits="{<<1,1,1>>, <<0,0,0>>}", seeds="{1}"),
                 where='n >= 4 /\\ hist[2].o = "Construct" /\\ '
                       '( (n = 4 /\\ hist[3] \\in {MkOp("SetStop", "", 0, 0, 0, TRUE), '
                       'MkOp("Save", "", 0, 0, 0, FALSE), MkOp("Seed", "", 1, 0, 0, FALSE)}) \\/ '
                       '(n = 5 /\\ hist[3].o = "Save" /\\ hist[4].o \\in {"Reinit", "Fit", "Construct"} /\\ hist[5].o = "Load") )')
    chk.add_tlc(res, "Lifecycle.tla export (pairs after SetStop / Save / Seed; Save-writer-Load; reduced catalogue)")
    for e in res.exports:
        sessions.append((e["type"], e["hist"], "bfs"))
    # seeded simulation to depth 14 (a handful of evaluations only, so that drawing / writing
    # operations are frequent).  TLC evaluates the export on every successor of the last
    # state of a trace: keep a few per trace.
    dsim = defs(evals=rng.sample(lo.EVAL_COMMON, 4), stats=STATS_FULL, ks="{0, 2}")
    res = export(14, dsim, simulate=21 if quick else 300, seed=seed % 100000)
    m = re.search(r"(\d+) states checked", res.raw)
    res.generated = res.distinct = int(m.group(1)) if m else 0
    chk.add_tlc(res, "Lifecycle.tla simulation depth 14")
    if res.violation:
        chk.violation("spec:" + str(res.violation), dict(tlc=res.raw[-4000:]))
        return chk.finish()
    by_prefix = {}
    for e in res.exports:
        by_prefix.setdefault(json.dumps([e["type"], e["hist"][:-1]]), []).append(e)
    for k in sorted(by_prefix):
        for e in rng.sample(by_prefix[k], min(3, len(by_prefix[k]))):
            sessions.append((e["type"], e["hist"], "sim"))
    if not sessions:
        raise common.MachineryError("TLC exported no history")
    # ---- 3. code -> spec: randomised sessions outside the explored bounds -------------
    for i in range(45 if quick else 900):
        typ = TYPES[i % 3]
        sessions.append((typ, random_history(rng, typ), "random"))

    lines, metas = [], []
    for j, (typ, hist, origin) in enumerate(sessions):
        key = "replay" if origin != "random" else "trace"
        sid = common.sha(json.dumps([typ, hist, origin, j], sort_keys=True).encode())
        big = origin == "random" and j % 4 == 0
        line, raw = execute_history(chk, typ, hist, sid, key, big=big)
        if line is None:
            continue
        compare_ab(chk, typ, hist, raw, key, sid, big)
        bad = lo.malformed(line)
        if bad is not None:
            raise common.MachineryError("recorder produced an ill-shaped event: %r" % (line["ev"][bad],))
        lines.append(line)
        metas.append((typ, hist, origin, sid, big))
        names = [op["o"] for op in hist[2:]]
        if any(x in names for x in ("Fit", "Reinit", "Load")) and any(x in names for x in ("Sample", "Stats", "ObsSample", "Fit")):
            chk.nontriv(sid)
        if j % 97 == 5:
            chk.sample(dict(type=typ, origin=origin, ops=[opkey(o) for o in hist]))

    # ---- 4. negative controls on recorded streams --------------------------------------
    def find(pred):
        for li, ln in enumerate(lines):
            for ei, e in enumerate(ln["ev"]):
                if ei >= 2 and pred(ln, ei, e):
                    return li, ei
        raise common.MachineryError("no donor session for a negative control")

    controls = []
    li, ei = find(lambda ln, ei, e: e["op"]["o"] == "Eval")
    c = copy.deepcopy(lines[li]); c["ev"][ei]["a"]["pv"][0] = 999999
    controls.append(("parameters changed by an evaluation accepted", c))
    li, ei = find(lambda ln, ei, e: e["op"]["o"] == "Sample" and e["op"]["k"] == 0 and e["op"]["init"])
    c = copy.deepcopy(lines[li])
    for w in "abc":
        c["ev"][ei][w]["rng"] = 999990 + "abc".index(w)
    controls.append(("generator advanced by sample(k=0, initial_state) accepted", c))
    li, ei = find(lambda ln, ei, e: e["op"]["o"] == "Sample" and e["op"]["n"] >= 64 and not e["op"]["init"])
    c = copy.deepcopy(lines[li]); c["ev"][ei]["c"]["out"] = c["ev"][ei]["a"]["out"]
    controls.append(("large sample identical under a different seed accepted", c))
    li, ei = find(lambda ln, ei, e: e["op"]["o"] in ("Stats", "Sample", "Fit") and ei + 1 < len(ln["ev"]))
    c = copy.deepcopy(lines[li]); c["ev"][ei]["b"]["out"] = 999998
    controls.append(("result differing between the two seeded runs accepted", c))
    li, ei = find(lambda ln, ei, e: e["op"]["o"] == "Save")
    c = copy.deepcopy(lines[li]); c["ev"][ei]["a"]["pv"][-1] = 999997; c["ev"][ei]["b"]["pv"][-1] = 999997
    controls.append(("parameters changed by save accepted", c))
    li, ei = find(lambda ln, ei, e: e["op"]["o"] == "Seed")
    c = copy.deepcopy(lines[li]); c["ev"][ei]["c"]["rng"] = c["ev"][ei]["a"]["rng"]
    controls.append(("a seeding call that ignores its argument accepted", c))

    # implementation-side control: one session in which the shuffle is served by numpy.random
    # (a session in which the order of the rows matters to the training result: with a single batch per epoch and
    # chains that happen to be deterministic the sums are order-independent and exact, and the two runs agree
    # legitimately - seen at VERIF_SEED=3; several fits with different batch sizes, and the first session of a few
    # in which the two runs do differ)
    typ = "positive"
    hist = [lo.mkop("Seed", k=1), lo.mkop("Construct"), lo.mkop("Fit", k=1, n=0, e=2), lo.mkop("Fit", k=2, n=1, e=1),
            lo.mkop("Fit", k=1, n=1, e=3), lo.mkop("Sample", k=1, n=64)]
    orig = torch.randperm
    cline = None
    for attempt in range(6):
        try:
            torch.randperm = lambda nn, *a, **k: torch.as_tensor(np.random.permutation(nn))
            sess = lo.Session(typ, "control-numpy-shuffle-%d" % attempt)
            cline, craw = lo.product(sess, hist, garbage_seed=seed)
        finally:
            torch.randperm = orig
        if any(e["a"]["pv"] != e["b"]["pv"] for e in cline["ev"]):
            break
    controls.append(("a fit whose shuffle comes from numpy.random accepted", cline))

    tres, acc, matched = validate(lines + [c for _, c in controls])
    chk.add_tlc(tres, "TraceOps.tla (%d sessions)" % len(lines))
    if tres.violation:
        chk.violation("trace:invariant:" + str(tres.violation), dict(tlc=tres.raw[-4000:]))
    for j, (name, _) in enumerate(controls):
        chk.control(not acc[len(lines) + j], name)
    for i, ok in enumerate(acc[:len(lines)]):
        typ, hist, origin, sid, big = metas[i]
        if ok:
            chk.traces += 1
            continue
        j = matched[i]
        chk.violation("%s:rejected:%s" % ("replay" if origin != "random" else "trace", opkey(hist[j])),
                      dict(type=typ, hist=hist, origin=origin, matched_prefix=j, session=sid, big=big,
                           observed=lo.describe(lines[i]["ev"], j)))
    chk.extra["sessions"] = dict(bfs=sum(1 for m in metas if m[2] == "bfs"), sim=sum(1 for m in metas if m[2] == "sim"),
                                 random=sum(1 for m in metas if m[2] == "random"))
    chk.assumptions += ["CPU only (gpu seeding unreachable: no CUDA device)", "torch.set_num_threads(1)",
                        "statistics with >= 2 chains (num_chains=1 is C13's finding)",
                        "histories start with set_random_seed; training data contains >= 1 all-Z row",
                        "a different seed is required to differ only for freshly drawn parameters, the generator "
                        "state and samples of >= 64 rows drawn from a fresh initial state",
                        "results are compared as hashes of their bytes (tensors, floats, dict of floats)"]
    extra_determinism(chk, seed)
    return chk.finish()
