"""Exact evaluation of the definitions of spec/Metrics.tla on exact states (C10).

Nothing here knows the library: a state is a vector / matrix of 50-digit complex numbers with its
normalisation, a basis change is the integer matrix D and the exponent r exported by TLC
(Dense = 2^(-r/2) D), a KL / NLL value is computed by walking the PLAN exported by TLC (which bases,
which rows in which group, which divisor).  Every value comes with a first-order error bound for an
input state whose entries carry a relative error eps (the tolerance the comparison uses).
"""
import mpmath

from terms import mpf

mp = mpmath.mp
ZERO = mpmath.mpf(0)
LOG_EPS = mpmath.log(mpmath.mpf(2) ** -52)        # torch clamps probabilities to [eps, 1 - eps] before the log


class Exact:
    """kind 'pure': v = amplitudes (unnormalised), norm = sum |v|^2.  kind 'mixed': m = matrix, norm = trace."""

    def __init__(self, kind, n, v=None, m=None, norm=None, eps=1e-9, label=""):
        self.kind, self.n, self.v, self.m, self.eps, self.label = kind, n, v, m, mpmath.mpf(eps), label
        if norm is None:
            norm = sum(abs(x) ** 2 for x in v) if kind == "pure" else sum(m[i][i].real for i in range(len(m)))
        self.norm = mpf(norm)
        self.N = 2 ** n


def gauss(g):
    return mpmath.mpc(g[0], g[1])


def pure_from_gauss(n, t):
    return Exact("pure", n, v=[gauss(g) for g in t], eps=0)


def gram_from_gauss(n, vecs):
    N = 2 ** n
    m = [[mpmath.mpc(0)] * N for _ in range(N)]
    for t in vecs:
        v = [gauss(g) for g in t]
        for i in range(N):
            for j in range(N):
                m[i][j] += v[i] * mpmath.conj(v[j])
    return Exact("mixed", n, m=m, eps=0)


class Unitary:
    """D (integer Gaussian matrix) and r from an exported DenseRec; rows as sparse lists"""

    def __init__(self, rec):
        self.basis = "".join(rec["basis"])
        self.r = rec["r"]
        self.D = [[complex(g[0], g[1]) for g in row] for row in rec["D"]]
        self.rows = [[(v, mpmath.mpc(g[0], g[1])) for v, g in enumerate(row) if g[0] or g[1]] for row in rec["D"]]
        self.scale = mpmath.mpf(2) ** self.r

    def apply_vec(self, x):
        """Dense(b) x  (with the factor 2^(-r/2))"""
        f = 1 / mpmath.sqrt(self.scale)
        return [f * sum(c * x[v] for v, c in row) for row in self.rows]

    def apply_mat(self, m):
        """Dense(b) m Dense(b)^dagger"""
        N = len(m)
        half = [[sum(c * m[v][j] for v, c in self.rows[s]) for j in range(N)] for s in range(N)]
        return [[sum(half[s][w] * mpmath.conj(c) for w, c in self.rows[t]) / self.scale for t in range(N)]
                for s in range(N)]


def born(state, U):
    """[(P_b(s), relative error bound of P_b(s))] for all s: the Born distribution of `state` in basis U"""
    out = []
    if state.kind == "pure":
        den = U.scale * state.norm
        for row in U.rows:
            amp = sum(c * state.v[v] for v, c in row)
            a = sum(abs(state.v[v]) for v, _ in row)
            p = abs(amp) ** 2 / den
            out.append((p, state.eps * (2 * a / abs(amp) + 1) if amp != 0 else mpmath.inf))
    else:
        den = U.scale * state.norm
        for row in U.rows:
            val = sum(c * state.m[v][w] * mpmath.conj(d) for v, c in row for w, d in row)
            a = sum(abs(state.m[v][w]) for v, _ in row for w, _ in row)
            p = val.real / den
            out.append((p, state.eps * (a / abs(val.real) + 1) if val.real != 0 else mpmath.inf))
    return out


class Value:
    def __init__(self, value, tol, judged=True, why=""):
        self.value, self.tol, self.judged, self.why = value, tol, judged, why


def kl_basis(T, Q):
    """sum_s T (ln T - ln Q), its error bound, the scale of the summands, clamp flag"""
    tot = err = scale = ZERO
    clamped = False
    for (t, _), (q, qe) in zip(T, Q):
        if t <= 0:
            continue
        if q < mpmath.mpf("1e-15"):
            if q <= 0 or t * abs(mpmath.log(q) - LOG_EPS) > mpmath.mpf("1e-13"):
                clamped = True
            continue
        tot += t * (mpmath.log(t) - mpmath.log(q))
        err += t * qe
        scale += t * (abs(mpmath.log(t)) + abs(mpmath.log(q)))
    return tot, err, scale, clamped


def kl_by_plan(model, target, plan, U, rel=1e-9):
    """KL = (1/div) sum over the plan's terms; U: {basis string: Unitary}"""
    tot = err = scale = ZERO
    clamped = False
    for term in plan["terms"]:
        b = "".join(term["basis"])
        t, e, s, c = kl_basis(born(target, U[b]), born(model, U[b]))
        tot, err, scale, clamped = tot + t, err + e, scale + s, clamped or c
    div = plan["div"]
    return Value(tot / div, (err + rel * abs(tot) + mpmath.mpf("1e-13") * scale) / div + mpmath.mpf("1e-12"),
                 judged=not clamped, why="probability below the clamp of probs_to_logits" if clamped else "")


def nll_by_plan(model, rows, plan, U, rel=1e-9):
    """NLL = -(1/div) sum over groups, rows of the group: ln Q_basis(s)"""
    tot = err = ZERO
    clamped = False
    cache = {}
    for g in plan["groups"]:
        b = "".join(g["basis"])
        if b not in cache:
            cache[b] = born(model, U[b])
        for k in g["idx"]:
            q, qe = cache[b][rows[k - 1]["s"]]
            if q < mpmath.mpf("1e-15"):
                clamped = True
                continue
            tot -= mpmath.log(q)
            err += qe
    div = plan["div"]
    return Value(tot / div, (err + rel * abs(tot)) / div + mpmath.mpf("1e-12"), judged=not clamped,
                 why="probability below the clamp of probs_to_logits" if clamped else "")


def fid_pure(model, target, rel=1e-9):
    """|<t|psi>|^2 / (N_t Z)"""
    ov = sum(mpmath.conj(t) * x for t, x in zip(target.v, model.v))
    a = sum(abs(t) * abs(x) for t, x in zip(target.v, model.v)) / mpmath.sqrt(target.norm * model.norm)
    f = abs(ov) ** 2 / (target.norm * model.norm)
    return Value(f, model.eps * (2 * mpmath.sqrt(f) * a + f) + rel * f + mpmath.mpf("1e-13"))


def tr_prod(a, b):
    N = len(a)
    return sum(a[i][k] * b[k][i] for i in range(N) for k in range(N))


def det2(m):
    return m[0][0] * m[1][1] - m[0][1] * m[1][0]


def fid_mixed_closed(model, target, fam):
    """closed forms of the Uhlmann fidelity decided by Metrics.tla (MixSelf, MixPure, MixRank1, MixQubit)"""
    if fam == "self":
        return mpmath.mpf(1)
    tm = tr_prod(target.m, model.m).real
    if fam in ("pure", "rank1"):
        return tm / (target.norm * model.norm)
    if fam == "qubit":
        dd = (det2(target.m) * det2(model.m)).real
        return (tm + 2 * mpmath.sqrt(max(dd, ZERO))) / (target.norm * model.norm)
    raise ValueError(fam)


def as_float_vec(x, scale):
    """(re list, im list) of x / scale as floats"""
    return [float((c / scale).real) for c in x], [float((c / scale).imag) for c in x]


def as_float_mat(m, scale):
    return ([[float((c / scale).real) for c in row] for row in m], [[float((c / scale).imag) for c in row] for row in m])
