"""Interpreter of the gradient templates exported by GradRBM.tla / GradDM.tla and the
expansion tables of Rot.tla.  Generic: evaluates operator trees over tables; the meaning of
the tables and the shape of the formulas come from the specifications."""
from fractions import Fraction

import mpmath

import terms
import tlc

_EXP_CACHE = {}


def expansions(n):
    """{basis string tuple: [per outcome k: list of (v index, u as mpc)]} from Rot.tla"""
    if n in _EXP_CACHE:
        return _EXP_CACHE[n]
    txt = ("VARIABLE x\n"
           "MCI == x = 0 /\\ PrintT(ToJson({[bs |-> b, k |-> k, ex |-> Expansion(b, BitRow(%d, k - 1))] : "
           "b \\in BasisStrings(%d), k \\in 1..P2(%d)}))\n"
           "MCN == x' = x /\\ FALSE") % (n, n, n)
    res = tlc.run("Rot", init="MCI", next="MCN", extends_extra=["Json", "TLC"], extra_text=txt, workers=1, timeout=300)
    table = {}
    for rec in res.exports[0]:
        bs = tuple(rec["bs"])
        table.setdefault(bs, {})[rec["k"] - 1] = [(t["v"], mpmath.mpc(t["u"][0], t["u"][1])) for t in rec["ex"]]
    _EXP_CACHE[n] = (table, res)
    return _EXP_CACHE[n]


def sigterm(B, t):
    """a term c * (1 | B^m/(1+B^m)) -> Fraction"""
    c = Fraction(t["c"])
    if t["k"] == 0:
        return c
    x = Fraction(B) ** t["m"]
    return c * x / (1 + x)


def gterm(B, t):
    """Gaussian term (cn[0] + i cn[1])/cd * (k=0: 1 | k=1: B^e/(1+B^e) | k=2: B^e i^f/(1 + B^e i^f)) -> mpc"""
    c = mpmath.mpc(terms.mpf(Fraction(t["cn"][0], t["cd"])), terms.mpf(Fraction(t["cn"][1], t["cd"])))
    if t["k"] == 0:
        return c
    x = Fraction(B) ** t["e"]
    if t["k"] == 1:
        return c * terms.mpf(x / (1 + x))
    z = terms.mpf(x) * terms.ipow(t["f"])
    return c * z / (1 + z)


def ev(t, env):
    """evaluate a template node; env maps leaf names to callables / values"""
    op = t["op"]
    if op == "re":
        return mpmath.re(ev(t["x"], env))
    if op == "neg":
        return -ev(t["x"], env)
    if op == "div":
        return ev(t["a"], env) / ev(t["b"], env)
    if op == "sub":
        return ev(t["a"], env) - ev(t["b"], env)
    if op == "add":
        return ev(t["a"], env) + ev(t["b"], env)
    if op == "mul":
        r = mpmath.mpc(1)
        for x in t["xs"]:
            r *= ev(x, env)
        return r
    if op == "i":
        return mpmath.mpc(0, 1)
    if op == "const":
        return mpmath.mpf(t["num"]) / mpmath.mpf(t["den"])
    if op.startswith("sum_") or op.startswith("mean_"):
        dom = env["domain"][op.split("_", 1)[1]]
        tot = mpmath.mpc(0)
        for item in dom:
            e2 = dict(env)
            e2["cur_" + op.split("_", 1)[1]] = item
            tot += ev(t["x"], e2)
        return tot / len(dom) if op.startswith("mean_") else tot
    if op in env:
        return env[op](env)
    raise KeyError("template leaf %r has no binding" % op)
