"""Extension - the user-facing observable contract.

spec/UserObs.tla follows a user-defined subclass of ObservableBase (abstractly: a table from a
small sample alphabet to scaled integer values, identified by name / symbol) through everything
the library offers for observables: the name / symbol defaults and the names the arithmetic
overloads give (the per-sample value of a composite is the linear form of spec/ObsExpr.tla,
instantiated), System (a dictionary keyed by name: first position, last object), statistics /
statistics_from_samples of an observable and of a System (the chain schedule is the machine of
spec/Stats.tla part B running inside, the numbers its streaming merge), ObservableEvaluator inside
fit() (period, past_values / last, accessors, verbose block, CSV log, clear_history).

spec -> code   every terminal behaviour TLC exports is replayed on REAL objects: user observables
               are real ObservableBase subclasses whose apply looks the value up from the case's
               table; real PositiveWaveFunction / ComplexWaveFunction / DensityMatrix with random
               non-zero parameters; the real System / ObservableEvaluator / fit loop.  The contents
               of every draw are forced to the case's stream (nn_state.sample runs, then the
               returned buffer is filled), so every number the specification computes as an exact
               rational is compared with the reported float (1e-12 relative), together with the
               apply log, the accessors, the CSV file and the verbose output.
code -> spec   randomised real sessions (free sampler, n = 2, 3, built-in leaves, composites,
               duplicate names) are recorded as ndjson events and validated by
               spec/TraceUserObs.tla, which re-runs the specification's actions.
tutorial       examples/.../quantum_ising_chain.py TFIMChainEnergy (when present) and an
               importance-weight TFIM energy written the way a user would, against the definition
               evaluated from the state's own psi / rho, and through System + ObservableEvaluator.

Entry point: run(chk, tier, seed) - adds to an existing common.Check (see check_xuserobs.py).
"""
import concurrent.futures as cf
import contextlib
import copy
import csv as csvmod
import importlib.util
import io
import json
import math
import os
import random
import re
import shutil
import tempfile
import warnings
from fractions import Fraction

import common
import tlc
import stats_run as sr

common.import_qucumber()
import numpy as np  # noqa: E402
import torch  # noqa: E402
from qucumber.nn_states import PositiveWaveFunction, ComplexWaveFunction, DensityMatrix  # noqa: E402
from qucumber.observables import ObservableBase, System, SigmaZ, NeighbourInteraction  # noqa: E402
from qucumber.callbacks import CallbackBase, ObservableEvaluator  # noqa: E402
from qucumber.utils import cplx  # noqa: E402

K = "ext:userobs:"
NO = "<none>"
NOEP = -1
WORKERS, HEAP = 8, "4g"
STATS_CONST = dict(MaxLen=1, MaxS=1, MaxC=1, MaxL=1, MaxObs=1)
STATS_DEFS = {"Vals": "{0}", "Ks": "{0}"}
U_INV = ["UTypeOK", "StatsAreOfAppliedValues", "ValuesAreApplyOfSeen", "SameSamplesForAllMembers", "KeyedByName",
         "RegistrationOrder", "EvaluatorRecordsWhatSystemReturned", "OnSchedule", "AllEpochs", "AccessorsConsistent",
         "CsvMatchesRecords", "ClearHistoryEmpties", "VerboseBlocks"]
EXPORT = "MC_Export == UFinished => PrintT(ToJson(UExport))"
OBSERVED = {}
STATE_KINDS = sr.STATE_KINDS


# --------------------------------------------------------------------------------------------
# expression trees in the syntax of ObsExpr.tla

def leaf(x):
    return dict(t="leaf", n=x)


def num(k):
    return dict(t="num", q=[k, 1])


def neg(a):
    return dict(t="neg", a=a)


def binop(op, l, r):
    return dict(t=op, l=l, r=r)


def entry(e, nm=NO, sy=NO):
    return dict(e=e, nm=nm, sy=sy)


def user_atom(cls, table, nm=NO, sy=NO):
    return dict(cls=cls, nm=nm, sy=sy, table=list(table), impl="user")


# --------------------------------------------------------------------------------------------
# real objects

def pattern(letter, n):
    return [float((letter >> (n - 1 - i)) & 1) for i in range(n)]


def letters_of(t):
    a = t.detach().to(torch.double).round().to(torch.long)
    n = a.shape[-1]
    w = torch.tensor([1 << (n - 1 - i) for i in range(n)], dtype=torch.long)
    return [int(x) for x in (a * w).sum(-1).reshape(-1).tolist()]


def make_state(kind, n, seed):
    """a real state with random non-zero parameters everywhere"""
    st = sr.make_state(kind, n, seed)
    g = torch.Generator().manual_seed(seed * 31 + 7)
    for net in st.networks:
        for p in getattr(st, net).parameters():
            v = torch.randn(p.shape, generator=g, dtype=torch.double) * 0.6
            v = torch.where(v.abs() < 0.05, torch.full_like(v, 0.3), v)
            p.data.copy_(v)
    return st


_USER_CLASSES = {}


def user_class(cls_name):
    """A user's ObservableBase subclass: only apply is written."""
    if cls_name not in _USER_CLASSES:
        def __init__(self, table, scale, name=None, symbol=None):
            self.table = list(table)
            self.scale = scale
            self.leaf_calls = []
            if name is not None:
                self.name = name
            if symbol is not None:
                self.symbol = symbol

        def apply(self, nn_state, samples):
            ls = letters_of(samples)
            self.leaf_calls.append((id(samples), ls))
            if cls_name == "Spin":
                # the occupation of one site, written the obvious way: a VIEW of the batch it was given (same
                # per-sample values as the table says; whoever post-processes a leaf's result must not write into it)
                n = samples.shape[-1]
                for j in range(n):
                    if all(self.table[a] == self.scale * ((a >> (n - 1 - j)) & 1) for a in range(len(self.table))):
                        return samples[:, j]
            return torch.tensor([self.table[a] for a in ls], dtype=torch.double) / self.scale
        _USER_CLASSES[cls_name] = type(cls_name, (ObservableBase,), dict(__init__=__init__, apply=apply))
    return _USER_CLASSES[cls_name]


BUILTINS = {"SigmaZ": lambda: SigmaZ(), "ZZ": lambda: NeighbourInteraction(c=1)}


def builtin_atom(impl, n, letters):
    """descriptor of a built-in leaf: its name / symbol / per-letter value are the library's (trusted here:
    C08 covers the built-ins); value times n is an integer"""
    o = BUILTINS[impl]()
    st = sr.make_state("positive", n, 1)
    v = o.apply(st, torch.tensor([pattern(a, n) for a in range(letters)], dtype=torch.double)) * n
    r = torch.round(v)
    if float((v - r).abs().max()) > 1e-9:
        raise common.MachineryError("built-in %s: n * value is not an integer" % impl)
    return dict(cls=type(o).__name__, nm=o.name, sy=o.symbol, table=[int(x) for x in r.tolist()], impl=impl)


def build_atom(a, scale, how):
    if a["impl"] != "user":
        return BUILTINS[a["impl"]]()
    cls = user_class(a["cls"])
    nm = None if a["nm"] == NO else a["nm"]
    sy = None if a["sy"] == NO else a["sy"]
    if how % 2 == 0:                                      # name / symbol set inside __init__ ...
        return cls(a["table"], scale, name=nm, symbol=sy)
    o = cls(a["table"], scale)                            # ... or assigned afterwards
    if nm is not None:
        o.name = nm
    if sy is not None:
        o.symbol = sy
    return o


def build_atoms(atoms, scale, variant=0):
    return [build_atom(a, scale, i + variant) for i, a in enumerate(atoms)]


def build_expr(e, leaves):
    t = e["t"]
    if t == "leaf":
        return leaves["abc".index(e["n"])]
    if t == "num":
        if e["q"][1] != 1:
            raise common.MachineryError("non-integer scalar in a case")
        return int(e["q"][0])
    if t == "neg":
        return -build_expr(e["a"], leaves)
    l, r = build_expr(e["l"], leaves), build_expr(e["r"], leaves)
    return l + r if t == "add" else l - r if t == "sub" else l * r


def build_observables(cfg, scale, variant=0):
    leaves = build_atoms(cfg["atoms"], scale, variant)
    objs, direct = [], set()
    for o in cfg["obs"]:                                             # all built before any renaming
        if o["e"]["t"] == "leaf" and o["e"]["n"] in direct:
            # the same leaf listed again: another instance of the same class (System(Energy(), Energy()))
            objs.append(build_atom(cfg["atoms"]["abc".index(o["e"]["n"])], scale, variant + len(objs)))
            continue
        if o["e"]["t"] == "leaf":
            direct.add(o["e"]["n"])
        objs.append(build_expr(o["e"], leaves))
    for o, d in zip(objs, cfg["obs"]):
        if d["nm"] != NO:
            o.name = d["nm"]
        if d["sy"] != NO:
            o.symbol = d["sy"]
    if len({id(o) for o in objs}) != len(objs):
        raise common.MachineryError("a case registers the same object twice")
    return leaves, objs


# --------------------------------------------------------------------------------------------
# the session driver: performs a script on real objects and emits one event per entry of `hist`

class Malformed(Exception):
    """the real run did something the event vocabulary has no word for (reported as a violation)"""


class _Sampler(sr.Recorder):
    """wrapper on the instance attribute nn_state.sample; optionally forces what a draw leaves in the chains"""

    def __init__(self, state, sess):
        super().__init__(state, None)
        self.sess = sess

    def __call__(self, *a, **kw):
        ba = self.sig.bind(self.state, *a, **kw)
        ba.apply_defaults()
        arg = ba.arguments
        init = arg["initial_state"]
        rec = {"k": int(arg["k"]), "ns": int(arg["num_samples"]), "init": self.tok(init),
               "ow": bool(arg["overwrite"]), "from": self.cid(init)}
        ret = self.real(*ba.args, **ba.kwargs)
        if self.sess.stream is not None:
            ls = self.sess.take(ret.shape[0])
            ret.copy_(torch.tensor([pattern(x, ret.shape[1]) for x in ls], dtype=ret.dtype))
        rec["ret"] = self.tok(ret)
        rec["to"] = self.cid(ret)
        self.sess.on_draw(rec, ret)
        return ret


class _EpochTap(CallbackBase):
    def __init__(self, sess):
        self.sess = sess

    def on_epoch_end(self, nn_state, epoch):
        self.sess.emit(dict(e="epoch", epoch=int(epoch)))
        self.sess.len_before = len(self.sess.ev_obj)
        self.sess.csv_before = self.sess.csv_lines()


class _AfterTap(CallbackBase):
    def __init__(self, sess):
        self.sess = sess

    def on_epoch_end(self, nn_state, epoch):
        self.sess.after_epoch(int(epoch))


def res_of(name, d):
    """a reported statistics dictionary as a plain record"""
    if not isinstance(d, dict) or set(d) != {"mean", "variance", "std_error", "num_samples"}:
        raise Malformed("statistics dictionary with keys %r" % (sorted(d) if isinstance(d, dict) else d,))
    return dict(name=name, mean=float(d["mean"]), var=float(d["variance"]), se=float(d["std_error"]), n=int(d["num_samples"]))


class Session:
    def __init__(self, cfg, n, state_kind, seed, forced, workdir, variant=0):
        self.cfg, self.n, self.scale = cfg, n, cfg["scale"]
        if self.scale != n:
            raise common.MachineryError("the scale of a case must be num_visible")
        self.events = []
        self.stream = list(cfg["stream"]) if forced else None
        self.spos = 0
        self.depth = 0
        self.cur_draw = 0
        self.sampler = None
        self.notes = {}
        self.state_kind, self.seed = state_kind, seed
        self.state = make_state(state_kind, n, seed)
        self.leaves, self.objs = build_observables(cfg, self.scale, variant)
        self.index = {id(o): i + 1 for i, o in enumerate(self.objs)}
        for i, o in enumerate(self.objs):
            self._tap(o, i + 1)
        kw = cfg["kw"]
        self.kw = dict(num_samples=kw["S"], num_chains=kw["C"], burn_in=kw["burn"], steps=kw["steps"])
        self.log_path = os.path.join(workdir, "log-%d.csv" % seed) if cfg["log"] else None
        if self.log_path and os.path.exists(self.log_path):
            os.remove(self.log_path)
        self.ev_obj = ObservableEvaluator(cfg["period"], list(self.objs), verbose=bool(cfg["verbose"]), log=self.log_path,
                                          **self.kw)
        self.system = System(*self.objs)
        self._tap_system(self.ev_obj.system, "eval")
        self.stdout = []
        self.len_before = 0
        self.csv_before = []
        sysobs = self.ev_obj.system.observables
        self.emit(dict(e="system", names=[o.name for o in self.objs], symbols=[o.symbol for o in self.objs],
                       keys=list(sysobs.keys()), members=[self.index.get(id(v), 0) for v in sysobs.values()],
                       header=list(self.ev_obj.csv_fields)))
        if list(self.system.observables.keys()) != list(sysobs.keys()) or \
                [id(v) for v in self.system.observables.values()] != [id(v) for v in sysobs.values()]:
            raise Malformed("two Systems built from the same list differ")

    # -- plumbing
    def emit(self, e):
        self.events.append(e)

    def take(self, k):
        ls = [self.stream[(self.spos + j) % len(self.stream)] for j in range(k)]
        self.spos += k
        return ls

    def _tap(self, obj, idx):
        orig = obj.apply

        def apply(nn_state, samples):
            if self.depth > 0:                       # a leaf called by a registered composite
                return orig(nn_state, samples)
            self.depth += 1
            try:
                seen = letters_of(samples)
                before = samples.detach().clone()
                out = orig(nn_state, samples)
                if not torch.equal(before, samples.detach()):
                    self.notes["apply modified the samples it was given"] = idx
                self.on_apply(idx, samples, seen, out)
                return out
            finally:
                self.depth -= 1
        obj.apply = apply

    def _tap_system(self, system, via):
        real = system.statistics

        def statistics(*a, **kw):
            self.begin_call()
            out = real(*a, **kw)
            self.emit(dict(e="return", who=0, via=via, res=self._sys_res(out)))
            return out
        system.statistics = statistics

    def _sys_res(self, out):
        if not isinstance(out, dict):
            raise Malformed("System returned %r" % type(out).__name__)
        return [res_of(k, copy.deepcopy(v)) for k, v in out.items()]

    def begin_call(self):
        self.sampler = _Sampler(self.state, self)
        self.state.sample = self.sampler
        self.cur_draw = 0

    def end_call(self):
        if "sample" in self.state.__dict__:
            del self.state.sample
        self.sampler = None

    def on_draw(self, rec, ret):
        self.cur_draw += 1
        self.emit(dict(e="draw", d=rec, content=letters_of(ret)))

    def values(self, out, rows):
        v = torch.as_tensor(out, dtype=torch.double).reshape(-1)
        if v.numel() != rows:
            raise Malformed("apply returned %d values for %d samples" % (v.numel(), rows))
        v = v * self.scale
        r = torch.round(v)
        if float((v - r).abs().max()) > 1e-7:
            raise Malformed("apply returned a value that is not table / scale")
        return [int(x) for x in r.tolist()]

    def on_apply(self, idx, samples, seen, out):
        tok = self.sampler.tok(samples) if self.sampler is not None else (1 if samples is self.user_batch else -1)
        self.emit(dict(e="apply", draw=self.cur_draw, member=idx, tensor=tok, content=seen,
                       vals=self.values(out, len(seen))))

    def csv_lines(self):
        if not self.log_path or not os.path.exists(self.log_path):
            return []
        with open(self.log_path, newline="") as fh:
            return list(csvmod.reader(fh))

    def after_epoch(self, epoch):
        ev = self.ev_obj
        grew = len(ev) - self.len_before
        new_rows = self.csv_lines()[len(self.csv_before):]
        if grew == 0:
            if new_rows:
                raise Malformed("a CSV row without a record")
            return
        if grew != 1:
            raise Malformed("past_values grew by %d in one epoch" % grew)
        ep, vals = ev.past_values[-1]
        if self.log_path:
            if len(new_rows) != 1:
                raise Malformed("%d CSV rows for one record" % len(new_rows))
            row = dict(epoch=int(new_rows[0][0]), cells=[float(x) for x in new_rows[0][1:]])
        else:
            row = dict(epoch=NOEP, cells=[])
        self.emit(dict(e="record", epoch=int(ep), len=len(ev), vals=self._sys_res(vals), row=row))

    # -- the user's script
    def batch(self, b):
        if self.stream is not None:
            ls = self.take(b)
        else:
            ls = [self.rng.randrange(2 ** self.n) for _ in range(b)]
        return torch.tensor([pattern(x, self.n) for x in ls], dtype=torch.double)

    def run(self, rng=None):
        self.rng = rng or random.Random(self.seed)
        self.user_batch = None
        data = torch.tensor([pattern(a % (2 ** self.n), self.n) for a in range(2)], dtype=torch.double)
        bases = None
        if self.state_kind != "positive":
            bases = np.array([["Z"] * self.n, ["Z"] * self.n])
        try:
            for op in self.cfg["script"]:
                k = op["op"]
                if k == "fit":
                    buf = io.StringIO()
                    with contextlib.redirect_stdout(buf):
                        self.state.fit(data, epochs=op["e"], starting_epoch=op["s"], pos_batch_size=2, k=1, lr=0.01,
                                       input_bases=bases, callbacks=[_EpochTap(self), self.ev_obj, _AfterTap(self)])
                    self.end_call()
                    self.stdout.append(buf.getvalue())
                elif k == "clear":
                    self.ev_obj.clear_history()
                    self.emit(dict(e="clear"))
                elif k == "view":
                    self.emit(self.view())
                elif k in ("sys.stats", "obs.stats"):
                    who = 0 if k == "sys.stats" else op["i"]
                    self.emit(dict(e="stat", who=who, via="direct"))
                    self.begin_call()
                    try:
                        if who == 0:
                            out = System.statistics(self.system, self.state, **self.kw)
                            res = self._sys_res(out)
                        else:
                            o = self.objs[who - 1]
                            res = [res_of(o.name, o.statistics(self.state, **self.kw))]
                    finally:
                        self.end_call()
                    self.emit(dict(e="return", who=who, via="direct", res=res))
                elif k in ("sys.sfs", "obs.sfs", "obs.apply"):
                    who = 0 if k == "sys.sfs" else op["i"]
                    self.user_batch = self.batch(op["b"])
                    at = len(self.events)
                    self.cur_draw = 1
                    if k == "sys.sfs":
                        res = self._sys_res(self.system.statistics_from_samples(self.state, self.user_batch))
                    elif k == "obs.sfs":
                        o = self.objs[who - 1]
                        res = [res_of(o.name, o.statistics_from_samples(self.state, self.user_batch))]
                    else:
                        out = self.objs[who - 1].apply(self.state, self.user_batch)
                    calls = self.events[at:]
                    del self.events[at:]
                    if any(c["e"] != "apply" for c in calls):
                        raise Malformed("%s did something else than applying observables" % k)
                    calls = [dict(member=c["member"], content=c["content"], vals=c["vals"], tensor=c["tensor"]) for c in calls]
                    if k == "obs.apply":
                        self.emit(dict(e="values", who=who, how=k, calls=calls, vals=self.values(out, op["b"])))
                    else:
                        self.emit(dict(e="sfs", who=who, calls=calls, res=res))
                    self.user_batch = None
                elif k == "obs.sample":
                    who = op["i"]
                    at = len(self.events)
                    self.begin_call()
                    try:
                        out = self.objs[who - 1].sample(self.state, 1, num_samples=op["b"])
                    finally:
                        self.end_call()
                    got = self.events[at:]
                    del self.events[at:]
                    if [g["e"] for g in got] != ["draw", "apply"]:
                        raise Malformed("ObservableBase.sample did %r" % ([g["e"] for g in got],))
                    d = got[0]["d"]
                    if (d["k"], d["ns"], d["init"], d["ow"]) != (1, op["b"], 0, False):
                        raise Malformed("ObservableBase.sample called nn_state.sample with %r" % (d,))
                    c = got[1]
                    self.emit(dict(e="values", who=who, how=k,
                                   calls=[dict(member=c["member"], content=c["content"], vals=c["vals"], tensor=c["tensor"])],
                                   vals=self.values(out, op["b"])))
                else:
                    raise common.MachineryError("unknown script operation %r" % k)
            self.emit(dict(e="end"))
        finally:
            self.end_call()
        return self.events

    def view(self):
        ev = self.ev_obj
        names = list(ev.names)
        series = []
        for nm in names:
            a, b = ev[nm], getattr(ev, nm) if nm not in ev.__dict__ and not hasattr(type(ev), nm) else ev[nm]
            recs = []
            for i in range(len(ev)):
                d = {}
                for stat, plural in (("mean", "means"), ("variance", "variances"), ("std_error", "std_errors"),
                                     ("num_samples", "num_samples")):
                    vals = {repr(float(x[i])) for x in (getattr(a, stat), a[stat], getattr(a, plural), getattr(b, stat))}
                    gv = {repr(float(ev.get_value(nm, i)[stat])), repr(float(ev.get_value(nm, i - len(ev))[stat]))}
                    if len(vals | gv) != 1:
                        raise Malformed("accessors disagree on %s of %r at index %d: %r %r" % (stat, nm, i, vals, gv))
                    d[stat] = float(a[stat][i])
                recs.append(res_of(nm, d))
            if len(ev) and repr(res_of(nm, ev.get_value(nm))) != repr(recs[-1]):
                raise Malformed("get_value(name) is not the latest record")
            for stat in ("mean", "variance", "std_error", "num_samples"):
                if len(a[stat]) != len(ev):
                    raise Malformed("series of length %d for %d records" % (len(a[stat]), len(ev)))
            series.append(recs)
        try:
            x = ev["<not a name>"]
            unknown = "empty" if len(x.data) == 0 else "returned"
        except AttributeError:
            unknown = "AttributeError"
        last = ev.last
        return dict(e="view", len=len(ev), epochs=[int(x) for x in ev.epochs], names=names, series=series,
                    last=[res_of(k, v) for k, v in last.items()], unknown=unknown)


# --------------------------------------------------------------------------------------------
# spec -> code: comparison of an exported behaviour with the events of the real run

def rat(p):
    return None if p[1] == 0 else Fraction(p[0], p[1])


def close(x, f, tol=1e-12):
    return isinstance(x, float) and math.isfinite(x) and abs(x - float(f)) <= tol * max(1.0, abs(float(f)))


def num_diff(spec, got, scale):
    """exact result [name, mean, var, se2, n] against a reported one -> None or the field that differs"""
    if got["name"] != spec["name"]:
        return "name"
    if got["n"] != spec["n"]:
        return "num_samples"
    if not close(got["mean"], rat(spec["mean"]) / scale):
        return "mean"
    v = rat(spec["var"])
    if v is None:
        return None                                  # no unbiased variance of one sample: not compared
    if not close(got["var"], v / scale ** 2):
        return "variance"
    if not close(got["se"], math.sqrt(rat(spec["se2"])) / scale):
        return "std_error"
    return None


def nums_diff(specs, gots, scale):
    if len(specs) != len(gots):
        return "number-of-results"
    for s, g in zip(specs, gots):
        d = num_diff(s, g, scale)
        if d:
            return d
    return None


def calls_diff(specs, gots):
    if len(specs) != len(gots):
        return "number-of-apply-calls"
    for s, g in zip(specs, gots):
        for f in ("member", "content", "vals"):
            if s[f] != g[f]:
                return "apply-" + f
    return None


def entry_diff(h, e, scale):
    """one entry of the specification's hist against one observed event -> None or a short reason"""
    if e["e"] != h["h"]:
        return "kind"
    k = h["h"]
    if k == "system":
        for f in ("names", "symbols", "keys", "members", "header"):
            if e[f] != h[f]:
                return f
    elif k == "epoch":
        return None if e["epoch"] == h["epoch"] else "epoch"
    elif k == "stat":
        return None if (e["who"], e["via"]) == (h["who"], h["via"]) else "who"
    elif k == "draw":
        for f in ("k", "ns", "init", "ow", "ret"):
            if e["d"][f] != h["d"][f]:
                return f
        return None if e["content"] == h["content"] else "content"
    elif k == "apply":
        for f in ("draw", "member", "content", "vals"):
            if e[f] != h[f]:
                return f
    elif k == "return":
        if (e["who"], e["via"]) != (h["who"], h["via"]):
            return "who"
        return nums_diff(h["res"], e["res"], scale)
    elif k == "record":
        if e["epoch"] != h["epoch"]:
            return "epoch"
        if e["len"] != h["len"]:
            return "len"
        d = nums_diff(h["vals"], e["vals"], scale)
        if d:
            return d
        return row_diff(h["row"], e["row"], e["vals"], scale)
    elif k == "view":
        v = h["v"]
        for f in ("len", "epochs", "names", "unknown"):
            if e[f] != v[f]:
                return f
        d = nums_diff(v["last"], e["last"], scale)
        if d:
            return "last-" + d
        if len(v["series"]) != len(e["series"]):
            return "series"
        for s, g in zip(v["series"], e["series"]):
            d = nums_diff(s, g, scale)
            if d:
                return "series-" + d
    elif k == "sfs":
        if e["who"] != h["who"]:
            return "who"
        return calls_diff(h["calls"], e["calls"]) or nums_diff(h["res"], e["res"], scale)
    elif k == "values":
        if (e["who"], e["how"]) != (h["who"], h["how"]):
            return "who"
        d = calls_diff(h["calls"], e["calls"])
        if d:
            return d
        return None if e["vals"] == h["vals"] else "vals"
    return None


def row_diff(spec, got, got_vals, scale):
    if spec["epoch"] == NOEP:
        return None if got["epoch"] == NOEP and not got["cells"] else "csv-row-without-log"
    if got["epoch"] != spec["epoch"]:
        return "csv-epoch"
    if len(got["cells"]) != len(spec["cells"]):
        return "csv-columns"
    for c, (s, g) in enumerate(zip(spec["cells"], got["cells"])):
        f = rat(s)
        if f is None:
            continue
        want = f / scale if c % 3 == 0 else f / scale ** 2 if c % 3 == 1 else math.sqrt(f) / scale
        if not close(g, want):
            return "csv-cell"
    return None


def csv_exact(events):
    """CSV rows equal the records exactly (repr round trip), column by column under the header"""
    header = events[0]["header"]
    for e in events:
        if e["e"] != "record" or e["row"]["epoch"] == NOEP:
            continue
        want = []
        byname = {r["name"]: r for r in e["vals"]}
        for col in header[1:]:
            for suffix, f in (("_mean", "mean"), ("_variance", "var"), ("_std_error", "se")):
                if col.endswith(suffix) and col[:-len(suffix)] in byname:
                    want.append(byname[col[:-len(suffix)]][f])
                    break
            else:
                return "csv-header-column-%s-names-no-record" % col
        got = e["row"]["cells"]
        if len(got) != len(want) or any(not (g == w or (math.isnan(g) and math.isnan(w))) for g, w in zip(got, want)):
            return "csv-row-differs-from-record"
    return None


_BLOCK = re.compile(r"Epoch: (-?\d+)")


def verbose_diff(printed, stdout, events):
    """the verbose output against the records: per record `Epoch: e`, then per name its four statistics (6 decimals)"""
    recs = [e for e in events if e["e"] == "record"]
    text = "".join(stdout)
    if not printed:
        return None if text == "" else "output-from-a-silent-evaluator"
    want = []
    for p, r in zip(printed, recs):
        want.append("Epoch: %d" % p["epoch"])
        for nm, v in zip(p["names"], r["vals"]):
            want.append("  %s:" % nm)
            want.append("    " + "\t".join("%s: %.6f" % (s, x) for s, x in
                                           (("mean", v["mean"]), ("variance", v["var"]), ("std_error", v["se"]),
                                            ("num_samples", v["n"]))))
    if len(printed) != len(recs):
        return "verbose-block-count"
    return None if text.splitlines() == want else "verbose-text"


def case_key(beh, why, at):
    ops = "+".join(sorted({o["op"] for o in beh["cfg"]["script"]}))
    dup = len(beh["hist"][0]["keys"]) < len(beh["hist"][0]["names"])
    return "%sreplay:%s:%s:%s%s" % (K, at, why, ops, ":duplicate-names" if dup else "")


def replay_case(beh, idx, seed, workdir, mutate=None):
    """One exported behaviour on real objects.  Returns None or (key, detail)."""
    cfg = beh["cfg"]
    kind = STATE_KINDS[idx % 3]
    n = 2
    hist = beh["hist"] if mutate is None else mutate(copy.deepcopy(beh["hist"]))
    try:
        torch.manual_seed(seed + idx)
        sess = Session(cfg, n, kind, seed + idx, True, workdir, variant=idx)
        events = sess.run()
    except Malformed as ex:
        return case_key(beh, "malformed", "run"), dict(cfg=cfg, state=kind, error=str(ex))
    except common.MachineryError:
        raise
    except Exception as ex:  # noqa: BLE001 - an exception escaping from the library is a finding
        import traceback
        return case_key(beh, "exception:" + type(ex).__name__, "run"), dict(cfg=cfg, state=kind, error=repr(ex),
                                                                            where=traceback.format_exc().splitlines()[-4:])
    for i, (h, e) in enumerate(zip(hist, events)):
        why = entry_diff(h, e, sess.scale)
        if why:
            return case_key(beh, why, h["h"]), dict(cfg=cfg, state=kind, at_event=i + 1, expected=h, got=e,
                                                    events_before=[x["e"] for x in events[:i]][-8:])
    if len(hist) != len(events):
        i = min(len(hist), len(events))
        return case_key(beh, "length", "end"), dict(cfg=cfg, state=kind, expected_events=len(hist), got_events=len(events),
                                                    next_expected=hist[i] if i < len(hist) else None,
                                                    next_got=events[i] if i < len(events) else None)
    why = csv_exact(events)
    if why:
        return case_key(beh, why, "csv"), dict(cfg=cfg, state=kind, events=[e for e in events if e["e"] == "record"][:3])
    if cfg["log"]:
        lines = sess.csv_lines()
        if not lines or lines[0] != beh["header"]:
            return case_key(beh, "csv-header", "csv"), dict(cfg=cfg, expected=beh["header"], got=lines[:1])
        if len(lines) - 1 != len(beh["csv"]):
            return case_key(beh, "csv-row-count", "csv"), dict(cfg=cfg, expected=len(beh["csv"]), got=len(lines) - 1)
    why = verbose_diff(beh["printed"], sess.stdout, events)
    if why:
        return case_key(beh, why, "verbose"), dict(cfg=cfg, stdout="".join(sess.stdout)[:600], expected_blocks=beh["printed"])
    # user leaves: a registered composite calls each of its leaves on the tensor it was given itself
    for a, o in zip(cfg["atoms"], sess.leaves):
        if a["impl"] == "user":
            OBSERVED["user leaf applies"] = OBSERVED.get("user leaf applies", 0) + len(o.leaf_calls)
    for k, v in sess.notes.items():
        return case_key(beh, "note", "run"), dict(cfg=cfg, note=k, member=v)
    # the tensor apply is handed: the live chain buffer itself (what the code does) or a copy - both satisfy the contract
    toks = {(e["tensor"] == 2) for e in events if e["e"] == "apply"}
    if toks:
        OBSERVED["apply is handed the chain buffer itself (no defensive copy)"] = \
            OBSERVED.get("apply is handed the chain buffer itself (no defensive copy)", True) and toks == {True}
    return None


# --------------------------------------------------------------------------------------------
# the bounded spaces TLC enumerates (TLA+ text)

MC_LETTERS = 3


def mc_atoms():
    return [user_atom("Energy", [1, -2, 0]), user_atom("Energy", [0, 1, 2]), builtin_atom("SigmaZ", 2, MC_LETTERS)]


def mc_atoms_named():
    return [user_atom("Energy", [1, -2, 0], nm="E", sy="e"), user_atom("Magnet", [2, 2, -1], sy="m"),
            user_atom("Other", [0, 1, 2], nm="SigmaZ")]


def mc_pool(tier):
    a, b, c = leaf("a"), leaf("b"), leaf("c")
    comp = binop("add", binop("sub", binop("mul", num(2), a), c), num(1))        # 2*a - c + 1
    pool = [entry(a), entry(b), entry(c), entry(comp), entry(binop("sub", num(1), b), nm="Energy")]
    if tier != "quick":
        pool += [entry(neg(a)), entry(binop("mul", b, num(-2)), nm="SigmaZ", sy="z")]
    return pool


def tv(x):
    return tlc.tla_value(x)


def shards(tier):
    """TLA+ text of the case sets.  One Pick state expands its whole set in ONE thread (and resolving a case through the
    ObsExpr instance is the expensive part), so every space is cut into sub-shards along one or two parameters."""
    quick = tier == "quick"
    kw1 = dict(S=2, C=0, burn=1, steps=1)
    kw2 = dict(S=3, C=2, burn=2, steps=0)

    def base(atoms, lg="lg", vb="vb", p="p"):
        return ("[scale |-> 2, atoms |-> %s, obs |-> os, period |-> %s, log |-> %s, verbose |-> %s, kw |-> kw, stream |-> st, script |-> sc]"
                % (tv(atoms), p, lg, vb))
    out = []
    # A: the collection - every list of <= 3 observables from the pool (duplicate names, composites, built-ins)
    pool = mc_pool(tier)
    pool_t = "{" + ", ".join(tv(x) for x in pool) + "}"
    scrA = [dict(op="sys.sfs", b=2), dict(op="fit", s=1, e=2), dict(op="view"), dict(op="obs.stats", i=1)]
    for atoms in ([mc_atoms()] if quick else [mc_atoms(), mc_atoms_named()]):
        for first in pool:
            out.append("{ %s : os \\in {<<%s>> \\o t : t \\in {<<>>} \\cup UNION {[1..m -> %s] : m \\in 1..2}}, p \\in {1, 2}, lg \\in {TRUE}, "
                       "vb \\in {%s}, kw \\in {%s}, st \\in {%s}, sc \\in {%s} }" % (
                           base(atoms), tv(first), pool_t, "FALSE" if quick else "TRUE, FALSE", tv(kw1), tv([0, 2, 1, 1, 0]), tv(scrA)))
    # B: the evaluator's schedule - periods 1..3, <= 4 epochs, start 0..2, empty ranges, a second fit with / without
    # clear_history in between, views in between
    a, b, c = leaf("a"), leaf("b"), leaf("c")
    lists = [[entry(a)], [entry(a), entry(b)], [entry(c), entry(binop("sub", a, c)), entry(b)]]
    if quick:
        lists = lists[1:]
    fit = '[op |-> "fit", s |-> %s, e |-> %s]'
    view, clear = '[op |-> "view"]', '[op |-> "clear"]'
    one = "UNION {{ <<%s, %s>> : e \\in {s - 1, s, s + 1, s + 3} } : s \\in 0..2}" % (fit % ("s", "e"), view)
    two = ("UNION {UNION {{ <<%s, %s>> \\o (IF cl THEN <<%s, %s>> ELSE <<>>) \\o <<%s, %s>> : e2 \\in (e1 + 1)..(s + 3), "
           "cl \\in BOOLEAN } : e1 \\in s..(s + 2)} : s \\in 0..1}") % (fit % ("s", "e1"), view, clear, view, fit % ("e1 + 1", "e2"), view)
    flags = "{<<TRUE, TRUE>>, <<FALSE, FALSE>>}" if quick else "BOOLEAN \\X BOOLEAN"
    for lst in lists:
        for p in (1, 2, 3):
            out.append("{ %s : os \\in {%s}, fl \\in %s, kw \\in {%s}, st \\in {%s}, sc \\in (%s) \\cup (%s) }" % (
                base(mc_atoms(), "fl[1]", "fl[2]", str(p)), tv(lst), flags,
                tv(kw1) if quick else tv(kw1) + ", " + tv(kw2), tv([1, 0, 2, 2, 1, 0, 1]), one, two))
    # C: the numbers - every stream over the alphabet, every (num_samples, num_chains), all direct operations
    smax, cmax, slen = (3, 2, 3) if quick else (4, 4, 4)
    lst = [entry(a), entry(binop("sub", binop("mul", num(2), b), a))]
    stat_scripts = "{ <<[op |-> o, i |-> 2]>> : o \\in {\"sys.stats\", \"obs.stats\"} }"
    streams = "{ <<%d>> \\o t : t \\in [1..%d -> 0..%d] }"
    fixed = base(mc_atoms(), "FALSE", "FALSE", "1")
    for s_ in range(1, smax + 1):
        for first in range(MC_LETTERS):
            kws = "{[S |-> %d, C |-> c, burn |-> bu, steps |-> 1] : c \\in 0..%d, bu \\in {%s}}" % (s_, cmax, "1" if quick else "0, 2")
            out.append("{ %s : os \\in {%s}, kw \\in %s, st \\in %s, sc \\in %s }" % (
                fixed, tv(lst), kws, streams % (first, slen - 1, MC_LETTERS - 1), stat_scripts))
    for bsz in range(1, slen + 1):
        for first in range(MC_LETTERS):
            batch_scripts = ("{ <<[op |-> o, i |-> i, b |-> %d]>> : o \\in {\"sys.sfs\", \"obs.sfs\", \"obs.apply\", \"obs.sample\"}, "
                             "i \\in 1..2 }" % bsz)
            out.append("{ %s : os \\in {%s}, kw \\in {%s}, st \\in %s, sc \\in %s }" % (
                fixed, tv(lst), tv(kw1), streams % (first, slen - 1, MC_LETTERS - 1), batch_scripts))
    return out


def run_mc(shard_texts, export=True, invariants=None, over=None, workers=WORKERS, timeout=900):
    defs = dict(STATS_DEFS)
    defs["UShards"] = "1..%d" % len(shard_texts)
    defs["UCasesOf(shardNo)"] = "CASE " + " [] ".join("shardNo = %d -> %s" % (i + 1, t) for i, t in enumerate(shard_texts))
    defs.update(over or {})
    inv = list(U_INV + sr.SCHED_INV if invariants is None else invariants)
    return tlc.run("UserObs", constants=dict(STATS_CONST), defs=defs, init="UInit", next="UNext",
                   invariants=inv + (["MC_Export"] if export else []), extends_extra=["Json"] if export else [],
                   extra_text=EXPORT if export else "", workers=workers, heap=HEAP, timeout=timeout)


def small_shard():
    """a tiny space for the specification-level controls"""
    a, b = leaf("a"), leaf("b")
    cases = []
    for os_ in ([entry(a), entry(b), entry(binop("mul", num(2), a), nm="E")], [entry(b), entry(binop("mul", num(2), a))]):
        for p in (1, 2):
            cases.append(dict(scale=2, atoms=mc_atoms_named(), obs=os_, period=p, log=True, verbose=True, kw=dict(S=3, C=2, burn=1, steps=1),
                              stream=[0, 2, 1, 1, 0], script=[dict(op="fit", s=1, e=3), dict(op="view"), dict(op="clear"),
                                                              dict(op="sys.stats"), dict(op="sys.sfs", b=3)]))
    return ["{" + ", ".join(tv(c) for c in cases) + "}"]


SPEC_CONTROLS = [
    ("a dictionary in which the FIRST observable of a name stays must violate KeyedByName",
     {"UDictPut(d, k, i)": "IF \\E j \\in 1..Len(d) : d[j].key = k THEN d ELSE Append(d, [key |-> k, member |-> i])"}, "KeyedByName"),
    ("a System keyed by symbol must violate KeyedByName", {"UKeyOf(o)": "o.symbol"}, "KeyedByName"),
    ("a biased variance in the merge must violate StatsAreOfAppliedValues", {"Bessel(n)": "n"}, "StatsAreOfAppliedValues"),
    ("an evaluator firing at (epoch + 1) % period = 0 must violate OnSchedule", {"UFires(e, p)": "(e + 1) % p = 0"}, "OnSchedule"),
    ("CSV columns in reverse key order must violate RegistrationOrder",
     {"UHeaderKeys": "[k \\in 1..Len(UKeys) |-> UKeys[Len(UKeys) + 1 - k]]"}, "RegistrationOrder"),
    ("statistics_from_samples with a biased variance must violate StatsAreOfAppliedValues",
     {"UOneShot(xs)": "[OnePass(xs) EXCEPT !.var = IF Len(xs) >= 2 THEN RMul(OnePass(xs).var, Norm(Len(xs) - 1, Len(xs))) ELSE Undef]"},
     "StatsAreOfAppliedValues"),
]


# --------------------------------------------------------------------------------------------
# code -> spec: random real sessions

def random_case(rng):
    n = rng.choice([2, 2, 3])
    letters = 2 ** n
    def table():
        return [rng.randint(-3, 3) for _ in range(letters)]
    classes = ["Energy", "Energy", "Magnet", "Corr"]
    atoms = []
    for i in range(3):
        r = rng.random()
        if r < 0.3:
            atoms.append(builtin_atom(rng.choice(["SigmaZ", "ZZ"]), n, letters))
        elif r < 0.5:
            j = rng.randrange(n)                       # Spin(j): value = bit j of the sample (table = scale * bit)
            atoms.append(user_atom("Spin", [n * ((a >> (n - 1 - j)) & 1) for a in range(letters)],
                                   nm=rng.choice([NO, "S%d" % j])))
        else:
            atoms.append(user_atom(rng.choice(classes), table(), nm=rng.choice([NO, NO, "E", "SigmaZ"]),
                                   sy=rng.choice([NO, NO, "e"])))
    ids = "abc"

    def rnd_expr(depth):
        if depth == 0 or rng.random() < 0.35:
            return leaf(rng.choice(ids))
        k = rng.random()
        if k < 0.15:
            return neg(rnd_expr(depth - 1))
        if k < 0.45:
            s = num(rng.choice([-2, -1, 2, 3, 0]))
            e = rnd_expr(depth - 1)
            return binop("mul", s, e) if rng.random() < 0.5 else binop("mul", e, s)
        op = rng.choice(["add", "sub"])
        l = rnd_expr(depth - 1)
        r = num(rng.choice([-1, 1, 2])) if rng.random() < 0.3 else rnd_expr(depth - 1)
        return binop(op, r, l) if rng.random() < 0.3 else binop(op, l, r)

    def max_abs(e, additive=True):
        """bound on |value * scale| (a scalar that is added counts scale times, a scalar factor counts as it is)"""
        t = e["t"]
        if t == "leaf":
            return max(abs(x) for x in atoms[ids.index(e["n"])]["table"])
        if t == "num":
            return abs(e["q"][0]) * (n if additive else 1)
        if t == "neg":
            return max_abs(e["a"])
        if t == "mul":
            return max_abs(e["l"], False) * max_abs(e["r"], False)
        return max_abs(e["l"]) + max_abs(e["r"])
    obs, used = [], set()
    for _ in range(rng.randint(1, 4)):
        if rng.random() < 0.5:
            free = [x for x in ids if x not in used]
            if not free:
                continue
            x = rng.choice(free)
            used.add(x)
            obs.append(entry(leaf(x)))
        else:
            for _try in range(20):
                e = rnd_expr(2)
                if e["t"] != "leaf" and max_abs(e) <= 12:
                    break
            else:
                continue
            obs.append(entry(e, nm=rng.choice([NO, NO, NO, "Energy", "X"]), sy=rng.choice([NO, NO, "x"])))
    if not obs:
        obs = [entry(leaf("a"))]
    S = rng.randint(1, 12)
    C = rng.choice([0, 0, 1, 2, 3, 4, 5, S + 2])
    while S <= 16 and -(-S // (min(C, S) if C else S)) * (min(C, S) if C else S) > 16:
        C += 1
    kw = dict(S=S, C=C, burn=rng.choice([0, 1, 3]), steps=rng.choice([0, 1, 2]))
    script = []
    ep = rng.choice([0, 1, 1, 2])
    for _ in range(rng.randint(1, 5)):
        r = rng.random()
        if r < 0.45 and ep <= 7:
            e = ep + rng.choice([-1, 0, 1, 2, 3])
            script.append(dict(op="fit", s=ep, e=e))
            ep = max(ep, e + 1)
        elif r < 0.55:
            script.append(dict(op="clear"))
        elif r < 0.7:
            script.append(dict(op="view"))
        elif r < 0.8:
            script.append(dict(op=rng.choice(["sys.stats", "obs.stats"]), i=rng.randint(1, len(obs))))
        else:
            script.append(dict(op=rng.choice(["sys.sfs", "obs.sfs", "obs.apply", "obs.sample"]), i=rng.randint(1, len(obs)),
                               b=rng.randint(1, 6)))
    script.append(dict(op="view"))
    return n, dict(scale=n, atoms=atoms, obs=obs, period=rng.choice([1, 1, 2, 3]), log=rng.random() < 0.7, verbose=rng.random() < 0.3,
                   kw=kw, stream=[0], script=script)


def fixed(x):
    return int(round(x * 1e6))


def _tres(r):
    d = not (math.isnan(r["var"]) or math.isnan(r["se"]))
    return dict(name=r["name"], n=r["n"], mean=fixed(r["mean"]), var=fixed(r["var"]) if d else 0, se=fixed(r["se"]) if d else 0,
                **{"def": d})


def to_trace_event(e):
    e = copy.deepcopy(e)
    k = e["e"]
    if k == "return":
        e["res"] = [_tres(r) for r in e["res"]]
    elif k == "record":
        e["vals"] = [_tres(r) for r in e["vals"]]
        e["row"] = dict(epoch=e["row"]["epoch"],
                        cells=[{"def": not math.isnan(x), "v": 0 if math.isnan(x) else fixed(x)} for x in e["row"]["cells"]])
    elif k == "view":
        e["last"] = [_tres(r) for r in e["last"]]
        e["series"] = [[_tres(r) for r in s] for s in e["series"]]
    elif k == "sfs":
        e["res"] = [_tres(r) for r in e["res"]]
    return e


_I = lambda x: isinstance(x, int) and not isinstance(x, bool)  # noqa: E731
_S = lambda x: isinstance(x, str)  # noqa: E731
_LI = lambda x: isinstance(x, list) and all(_I(v) for v in x)  # noqa: E731
_LS = lambda x: isinstance(x, list) and all(_S(v) for v in x)  # noqa: E731


def _is_res(x):
    return isinstance(x, dict) and set(x) == {"name", "n", "mean", "var", "se", "def"} and _S(x["name"]) and \
        all(_I(x[f]) and abs(x[f]) < 10 ** 9 for f in ("n", "mean", "var", "se")) and isinstance(x["def"], bool)


def _is_call(x):
    return isinstance(x, dict) and set(x) >= {"member", "content", "vals"} and _I(x["member"]) and _LI(x["content"]) and _LI(x["vals"])


_SHAPE = {
    "system": lambda e: all(_LS(e.get(f)) for f in ("names", "symbols", "keys", "header")) and _LI(e.get("members")),
    "epoch": lambda e: _I(e.get("epoch")),
    "stat": lambda e: _I(e.get("who")) and _S(e.get("via")),
    "draw": lambda e: isinstance(e.get("d"), dict) and set(e["d"]) == {"k", "ns", "init", "ow", "ret", "from", "to"}
    and all(_I(e["d"][f]) for f in ("k", "ns", "init", "ret", "from", "to")) and isinstance(e["d"]["ow"], bool)
    and _LI(e.get("content")),
    "apply": lambda e: all(_I(e.get(f)) for f in ("draw", "member")) and _LI(e.get("content")) and _LI(e.get("vals")),
    "return": lambda e: _I(e.get("who")) and _S(e.get("via")) and isinstance(e.get("res"), list) and all(_is_res(r) for r in e["res"]),
    "record": lambda e: _I(e.get("epoch")) and _I(e.get("len")) and isinstance(e.get("vals"), list) and all(_is_res(r) for r in e["vals"])
    and isinstance(e.get("row"), dict) and _I(e["row"].get("epoch")) and isinstance(e["row"].get("cells"), list)
    and all(isinstance(c, dict) and set(c) == {"def", "v"} and _I(c["v"]) and abs(c["v"]) < 10 ** 9 and isinstance(c["def"], bool)
            for c in e["row"]["cells"]),
    "clear": lambda e: True,
    "view": lambda e: _I(e.get("len")) and _LI(e.get("epochs")) and _LS(e.get("names")) and _S(e.get("unknown"))
    and isinstance(e.get("last"), list) and all(_is_res(r) for r in e["last"]) and isinstance(e.get("series"), list)
    and all(isinstance(s, list) and all(_is_res(r) for r in s) for s in e["series"]),
    "sfs": lambda e: _I(e.get("who")) and isinstance(e.get("calls"), list) and all(_is_call(c) for c in e["calls"])
    and isinstance(e.get("res"), list) and all(_is_res(r) for r in e["res"]),
    "values": lambda e: _I(e.get("who")) and _S(e.get("how")) and isinstance(e.get("calls"), list) and all(_is_call(c) for c in e["calls"])
    and _LI(e.get("vals")),
    "end": lambda e: True,
}


def trace_malformed(line):
    """index of the first event that is not shaped like an entry of `hist` (TraceUserObs.tla is total only on
    well-shaped events), or None; also guards TLC's 32-bit integers"""
    ev = line.get("ev")
    if not isinstance(ev, list) or not ev or not isinstance(line.get("cfg"), dict) or not _I(line["cfg"].get("scale")):
        return 0
    for i, e in enumerate(ev):
        f = _SHAPE.get(e.get("e")) if isinstance(e, dict) else None
        if f is None or not f(e):
            return i
        vals = [v for c in e.get("calls", []) for v in c["vals"]] + (e.get("vals", []) if e["e"] in ("apply", "values") else [])
        if any(abs(v) > 12 for v in vals) or len(e.get("content", [])) > 16:
            return i
    return None


def designed_cases():
    """sessions that contain every feature the negative controls need a donor for"""
    a, b, c = leaf("a"), leaf("b"), leaf("c")
    out = []
    for n, period, kw in ((2, 2, dict(S=5, C=2, burn=2, steps=1)), (3, 1, dict(S=4, C=0, burn=1, steps=1)),
                          (2, 3, dict(S=6, C=4, burn=0, steps=2))):
        L = 2 ** n
        atoms = [user_atom("Energy", [(3 * i + 1) % 7 - 3 for i in range(L)]), user_atom("Energy", [(5 * i) % 5 - 2 for i in range(L)]),
                 builtin_atom("SigmaZ", n, L)]
        obs = [entry(a), entry(binop("sub", binop("mul", num(2), b), c)), entry(b), entry(c)]
        script = [dict(op="sys.sfs", b=5), dict(op="fit", s=1, e=4), dict(op="view"), dict(op="clear"), dict(op="view"),
                  dict(op="fit", s=5, e=7), dict(op="view"), dict(op="sys.stats"), dict(op="obs.stats", i=2),
                  dict(op="obs.sample", i=1, b=4), dict(op="obs.sfs", i=2, b=6), dict(op="obs.apply", i=4, b=3)]
        out.append((n, dict(scale=n, atoms=atoms, obs=obs, period=period, log=True, verbose=False, kw=kw, stream=[0], script=script)))
    return out


def record_sessions(rng, count, seed, workdir):
    lines, metas, bad = [], [], []
    designed = designed_cases()
    for i in range(count):
        n, cfg = designed[i] if i < len(designed) else random_case(rng)
        kind = STATE_KINDS[i % 3]
        meta = dict(n=n, state=kind, seed=seed + i, cfg=cfg)
        try:
            torch.manual_seed(seed + i)
            sess = Session(cfg, n, kind, seed + i, False, workdir, variant=i)
            events = sess.run(random.Random(seed * 13 + i))
            if sess.notes:
                raise Malformed("; ".join(sess.notes))
        except Malformed as ex:
            bad.append((K + "trace:malformed", dict(meta, error=str(ex))))
            continue
        except common.MachineryError:
            raise
        except Exception as ex:  # noqa: BLE001
            import traceback
            bad.append((K + "trace:exception:" + type(ex).__name__, dict(meta, error=repr(ex), where=traceback.format_exc().splitlines()[-4:])))
            continue
        why = csv_exact(events)
        if why:
            bad.append((K + "trace:" + why, meta))
            continue
        lines.append(dict(cfg=cfg, ev=[to_trace_event(e) for e in events]))
        metas.append(meta)
    return lines, metas, bad


def validate_traces(lines, timeout=900):
    d = tempfile.mkdtemp(prefix="verif-userobs-")
    try:
        path = os.path.join(d, "traces.ndjson")
        with open(path, "w") as fh:
            for ln in lines:
                fh.write(json.dumps(ln) + "\n")
        defs = dict(STATS_DEFS)
        defs.update({"UShards": "{0}", "UCasesOf(shardNo)": "{}"})
        res = tlc.run("TraceUserObs", constants=dict(STATS_CONST), defs=defs, init="XInit", next="XNext", constraints=["Track"],
                      postcondition="Verdicts", invariants=U_INV + sr.SCHED_INV, workers=1, heap=HEAP, timeout=timeout,
                      env={"TRACE_FILE": path})
    finally:
        shutil.rmtree(d, ignore_errors=True)
    verdict = {e["tid"]: e for e in res.exports if isinstance(e, dict) and "tid" in e}
    acc, matched = [], []
    for i in range(1, len(lines) + 1):
        v = verdict.get(i)
        if v is None:
            raise common.MachineryError("no verdict for session %d\n%s" % (i, res.raw[-3000:]))
        acc.append(v["matched"] == v["need"])
        matched.append(v["matched"])
    return res, acc, matched


def corrupted_traces(lines):
    """(what, line) pairs: sessions TraceUserObs.tla must refuse"""
    out = []

    def donor(pred):
        for ln in lines:
            for i, e in enumerate(ln["ev"]):
                if pred(ln, i, e):
                    return copy.deepcopy(ln), i
        raise common.MachineryError("no donor session for a negative control")

    def nkeys(ln):
        return len(ln["ev"][0]["keys"])

    ln, i = donor(lambda ln, i, e: e["e"] == "apply" and nkeys(ln) >= 2 and len(set(e["content"])) >= 2 and ln["ev"][i + 1]["e"] == "apply")
    ln["ev"][i + 1]["content"] = ln["ev"][i + 1]["content"][::-1]
    out.append(("a member that saw other samples than the draw left in the chains", ln))
    ln, i = donor(lambda ln, i, e: e["e"] == "apply" and nkeys(ln) >= 2 and ln["ev"][i + 1]["e"] == "apply")
    del ln["ev"][i + 1]
    out.append(("a member that was not applied after a draw", ln))
    ln, i = donor(lambda ln, i, e: e["e"] == "apply" and e["draw"] >= 1 and ln["ev"][i - 1]["e"] == "draw")
    ln["ev"].insert(i + 1, copy.deepcopy(ln["ev"][i]))
    out.append(("a member applied twice to one draw", ln))
    ln, i = donor(lambda ln, i, e: e["e"] == "return" and len(e["res"]) >= 2 and e["res"][0]["mean"] != e["res"][1]["mean"])
    r = ln["ev"][i]["res"]
    r[0]["name"], r[1]["name"] = r[1]["name"], r[0]["name"]
    out.append(("a result filed under another observable's name", ln))
    ln, i = donor(lambda ln, i, e: e["e"] == "return" and e["res"][0]["def"] and e["res"][0]["var"] > 40 * e["res"][0]["n"])
    r = ln["ev"][i]["res"][0]
    r["var"] = int(round(r["var"] * (r["n"] - 1) / r["n"]))
    out.append(("a biased variance", ln))
    ln, i = donor(lambda ln, i, e: e["e"] == "sfs" and e["res"][0]["def"] and e["res"][0]["se"] > 100)
    ln["ev"][i]["res"][0]["se"] += 3
    out.append(("a std_error off by 3e-6", ln))

    def skipped(ln, i, e):
        return e["e"] == "epoch" and e["epoch"] % ln["cfg"]["period"] != 0 and any(x["e"] == "record" for x in ln["ev"])
    ln, i = donor(skipped)
    j = next(j for j, x in enumerate(ln["ev"]) if x["e"] == "record")
    k = max(q for q in range(j) if ln["ev"][q]["e"] == "epoch")
    block = copy.deepcopy(ln["ev"][k + 1:j + 1])
    for x in block:
        if "epoch" in x:
            x["epoch"] = ln["ev"][i]["epoch"]
        if x["e"] == "record":
            x["row"]["epoch"] = ln["ev"][i]["epoch"] if x["row"]["epoch"] != NOEP else NOEP
    ln["ev"][i + 1:i + 1] = block
    out.append(("a record at an epoch that is not a multiple of the period", ln))
    ln, i = donor(lambda ln, i, e: e["e"] == "epoch" and e["epoch"] % ln["cfg"]["period"] == 0 and ln["ev"][i + 1]["e"] == "draw")
    j = next(j for j in range(i, len(ln["ev"])) if ln["ev"][j]["e"] == "record")
    del ln["ev"][i + 1:j + 1]
    out.append(("no record at an epoch that is a multiple of the period", ln))
    ln, i = donor(lambda ln, i, e: e["e"] == "system" and len(e["header"]) >= 7 and ln["cfg"]["log"])
    h = ln["ev"][0]["header"]
    h[1:4], h[4:7] = h[4:7], h[1:4]
    out.append(("CSV header columns in another order", ln))
    ln, i = donor(lambda ln, i, e: e["e"] == "record" and len(e["row"]["cells"]) >= 6 and e["row"]["cells"][0] != e["row"]["cells"][3])
    c = ln["ev"][i]["row"]["cells"]
    c[0:3], c[3:6] = c[3:6], c[0:3]
    out.append(("a CSV row whose columns are in another order than the header", ln))
    ln, i = donor(lambda ln, i, e: e["e"] == "record" and e["len"] >= 2 and e["vals"][0]["def"])
    ln["ev"][i]["vals"][0]["mean"] += 5
    out.append(("a record that differs from what System.statistics returned", ln))
    ln, i = donor(lambda ln, i, e: e["e"] == "view" and e["len"] >= 1 and i > 0 and any(x["e"] == "clear" for x in ln["ev"][:i]) is False)
    ln["ev"][i]["epochs"] = ln["ev"][i]["epochs"][:-1]
    ln["ev"][i]["len"] -= 1
    out.append(("an accessor that lost the latest record", ln))
    ln, i = donor(lambda ln, i, e: e["e"] == "view" and e["len"] == 0 and i > 0 and ln["ev"][i - 1]["e"] == "clear"
                  and any(x["e"] == "record" for x in ln["ev"][:i]))
    rec = [x for x in ln["ev"][:i] if x["e"] == "record"][-1]
    ln["ev"][i].update(len=1, epochs=[rec["epoch"]], last=rec["vals"], series=[[v] for v in rec["vals"]], unknown="AttributeError")
    out.append(("records that survived clear_history", ln))
    ln, i = donor(lambda ln, i, e: e["e"] == "system" and len(e["keys"]) < len(e["names"]) and len(e["keys"]) >= 1)
    s = ln["ev"][0]
    dupname = next(nm for nm in s["names"] if s["names"].count(nm) >= 2)
    k = s["keys"].index(dupname)
    s["members"][k] = s["names"].index(dupname) + 1
    out.append(("a System in which the first of two observables of one name stands for it", ln))
    return out


# --------------------------------------------------------------------------------------------
# the tutorial's observable

def load_tutorial():
    path = os.path.join(common.REPO, "examples", "Tutorial4_DataGeneration_CalculateObservables", "quantum_ising_chain.py")
    if not os.path.exists(path):
        return None
    spec = importlib.util.spec_from_file_location("verif_tutorial_quantum_ising_chain", path)
    mod = importlib.util.module_from_spec(spec)
    spec.loader.exec_module(mod)
    return mod.TFIMChainEnergy


class UserTFIM(ObservableBase):
    """The same energy written the way the observables tutorial teaches it for any state type: flipped COPIES of the
    samples, nn_state.importance_sampling_weight for the off-diagonal ratio."""

    def __init__(self, h):
        self.h = h
        self.symbol = "H"

    def apply(self, nn_state, samples):
        n = samples.shape[-1]
        pm = samples * 2.0 - 1.0
        zz = (pm[:, :-1] * pm[:, 1:]).sum(1)
        x = torch.zeros(samples.shape[0], dtype=torch.double)
        for i in range(n):
            flipped = samples.clone()
            flipped[:, i] = 1.0 - flipped[:, i]
            x = x + cplx.real(nn_state.importance_sampling_weight(flipped, samples))
        return -(zz + self.h * x) / n


def exact_tfim(state, kind, h, n, amplitude_only=False):
    """the definition, per basis state, from the state's own psi / rho on the whole space (trusted input)"""
    space = state.generate_hilbert_space(n)
    if kind == "density":
        rho = state.rho(space, space)
        re = rho[0]
        ratio = lambda s, f: float(re[f, s] / re[s, s])  # noqa: E731
    else:
        psi = state.psi(space)
        if amplitude_only:
            amp = (psi[0] ** 2 + psi[1] ** 2).sqrt()
            ratio = lambda s, f: float(amp[f] / amp[s])  # noqa: E731
        else:
            ratio = lambda s, f: float((psi[0][f] * psi[0][s] + psi[1][f] * psi[1][s]) / (psi[0][s] ** 2 + psi[1][s] ** 2))  # noqa: E731
    out = []
    for s in range(2 ** n):
        bits = [(s >> (n - 1 - i)) & 1 for i in range(n)]
        zz = sum((2 * bits[i] - 1) * (2 * bits[i + 1] - 1) for i in range(n - 1))
        x = sum(ratio(s, s ^ (1 << (n - 1 - i))) for i in range(n))
        out.append(-(zz + h * x) / n)
    return out


def float_stats(xs):
    N = len(xs)
    m = math.fsum(xs) / N
    v = math.fsum((x - m) ** 2 for x in xs) / (N - 1) if N >= 2 else float("nan")
    return m, v, (math.sqrt(v / N) if N >= 2 else float("nan")), N


def tutorial_phase(chk, tier, seed, workdir):
    Tfim = load_tutorial()
    info = chk.extra.setdefault("ext_userobs", {})
    info["tutorial_TFIMChainEnergy"] = "examples/Tutorial4 (and 5, same file)" if Tfim else "examples directory absent: skipped"
    rng = random.Random(seed + 5)
    combos = [(k, n) for k in STATE_KINDS for n in (2, 3)]
    for ci, (kind, n) in enumerate(combos):
        for rep in range(1 if tier == "quick" else 6):
            h = rng.choice([0.5, 1.0, 2.0])
            state = make_state(kind, n, seed + 100 * ci + rep)
            cands = [("user-style TFIM energy (importance_sampling_weight)", UserTFIM(h), False)]
            if Tfim is not None and kind != "density":
                # the tutorial's class reads rbm_am only: it is the TFIM energy for a positive wavefunction; on a complex
                # one it is the same formula on the amplitudes
                cands.append(("tutorial TFIMChainEnergy", Tfim(h), True))
            space = state.generate_hilbert_space(n)
            for label, obs, amp_only in cands:
                key = K + "tfim:%s:%s" % ("tutorial" if amp_only else "user", kind)
                want = exact_tfim(state, kind, h, n, amplitude_only=amp_only)
                default_name = type(obs).__name__
                if obs.name != default_name or (amp_only and obs.symbol != default_name):
                    chk.violation(key + ":name", dict(name=obs.name, symbol=obs.symbol, expected=default_name))
                batch = space.clone()
                got = obs.apply(state, batch)
                chk.evaluations += 1
                if not torch.equal(batch, space):
                    chk.violation(key + ":samples-modified", dict(h=h, n=n, what="apply changed the samples it was given"))
                got = [float(x) for x in torch.as_tensor(got, dtype=torch.double).reshape(-1)]
                if len(got) != 2 ** n or any(not close(g, w, 1e-9) for g, w in zip(got, want)):
                    chk.violation(key + ":apply", dict(h=h, n=n, state=kind, expected=want, got=got, observable=label))
                    continue
                chk.nontriv(("tfim", label, kind, n, rep))
                # through System + ObservableEvaluator in a real fit: every record is the statistics of the definition
                # on exactly the drawn samples; SigmaZ next to it sees the same samples
                z = SigmaZ()
                drawn, seen = [], {"E": [], "Z": []}
                rec = sr.Recorder(state, None)

                def sample(*a, **kw):
                    ret = rec(*a, **kw)
                    drawn.append(letters_of(ret))
                    return ret
                for tag, o in (("E", obs), ("Z", z)):
                    o.apply = (lambda orig, tag: lambda st, s: (seen[tag].append(letters_of(s)), orig(st, s))[1])(o.apply, tag)
                ev = ObservableEvaluator(2, [obs, z], verbose=False, num_samples=7, num_chains=3, burn_in=2, steps=1)
                data = torch.tensor([pattern(a, n) for a in range(2)], dtype=torch.double)
                bases = None if kind == "positive" else np.array([["Z"] * n] * 2)
                state.sample = sample
                try:
                    torch.manual_seed(seed + ci)
                    state.fit(data, epochs=4, pos_batch_size=2, k=1, lr=0.01, input_bases=bases, callbacks=[ev])
                finally:
                    del state.sample
                chk.evaluations += 1
                ok = len(ev) == 2 and list(ev.epochs) == [2, 4] and len(drawn) == 6 and seen["E"] == seen["Z"] \
                    and seen["E"] == drawn and ev.names == [default_name, "SigmaZ"]
                if not ok:
                    chk.violation(key + ":evaluator", dict(h=h, n=n, epochs=[int(x) for x in ev.epochs], draws=len(drawn),
                                                           same_samples=seen["E"] == seen["Z"], names=ev.names))
                    continue
                # the parameters moved between the two records: the definition is evaluated on the state as it was then -
                # only the last record can be recomputed afterwards
                want_now = exact_tfim(state, kind, h, n, amplitude_only=amp_only)
                xs = [want_now[a] for d in drawn[3:] for a in d]
                m, v, se, N = float_stats(xs)
                last = ev.get_value(default_name)
                if not (close(last["mean"], m, 1e-9) and close(last["variance"], v, 1e-9) and close(last["std_error"], se, 1e-9)
                        and last["num_samples"] == N == 9):
                    chk.violation(key + ":evaluator-numbers", dict(h=h, n=n, reported=last, expected=dict(mean=m, variance=v, std_error=se, n=N)))


# --------------------------------------------------------------------------------------------
# what a writing apply does (documented here, not demanded): the tensor is the live chain buffer

def writer_demo():
    class Writer(ObservableBase):
        def apply(self, nn_state, samples):
            out = samples.sum(1)
            samples.zero_()
            return out
    st = make_state("positive", 2, 3)
    seen = []

    class Reader(ObservableBase):
        def apply(self, nn_state, samples):
            seen.append(letters_of(samples))
            return samples.sum(1)
    torch.manual_seed(1)
    System(Writer(), Reader()).statistics(st, 8, num_chains=4, burn_in=3, steps=0)
    return all(set(s) == {0} for s in seen)


# --------------------------------------------------------------------------------------------

def control(chk, rejected, what):
    """On an implementation that already disagrees with the specification a corrupted expectation may coincide
    with the (wrong) behaviour: the control cannot be judged then."""
    if not rejected and chk.violations:
        return
    chk.control(rejected, what)


def replay_controls(chk, behs, seed, workdir):
    """comparator controls: a corrupted expectation must be flagged by replay_case"""
    def pick(pred):
        for i, b in enumerate(behs):
            if pred(b):
                return i, b
        raise common.MachineryError("no donor behaviour for a negative control")

    def has(b, kind, pred=lambda h: True):
        return any(h["h"] == kind and pred(h) for h in b["hist"])

    def change(kind, fn, pred=lambda h: True):
        def m(hist):
            for h in hist:
                if h["h"] == kind and pred(h):
                    fn(h)
                    break
            return hist
        return m
    i, b = pick(lambda b: has(b, "return", lambda h: h["res"][0]["var"][1] != 0 and h["res"][0]["var"][0] != 0))
    control(chk, replay_case(b, i, seed, workdir, change("return", lambda h: h["res"][0].update(
        var=[h["res"][0]["var"][0] * (h["res"][0]["n"] - 1), h["res"][0]["var"][1] * h["res"][0]["n"]]),
        lambda h: h["res"][0]["var"][1] != 0 and h["res"][0]["var"][0] != 0)) is not None,
        "replay comparator accepted a biased variance")
    i, b = pick(lambda b: len(b["hist"][0]["keys"]) >= 2 and has(b, "record"))
    control(chk, replay_case(b, i, seed, workdir, change("system", lambda h: h.update(keys=h["keys"][::-1]))) is not None,
            "replay comparator accepted keys in reverse order")
    i, b = pick(lambda b: has(b, "apply", lambda h: len(set(h["content"])) >= 2))
    control(chk, replay_case(b, i, seed, workdir, change("apply", lambda h: h.update(content=h["content"][::-1]),
                                                         lambda h: len(set(h["content"])) >= 2)) is not None,
            "replay comparator accepted an apply on other samples")
    i, b = pick(lambda b: has(b, "record") and b["cfg"]["period"] >= 2)
    control(chk, replay_case(b, i, seed, workdir, change("record", lambda h: h.update(epoch=h["epoch"] - 1))) is not None,
            "replay comparator accepted a record at another epoch")
    i, b = pick(lambda b: has(b, "view", lambda h: h["v"]["len"] >= 2))
    control(chk, replay_case(b, i, seed, workdir, change("view", lambda h: h["v"].update(epochs=h["v"]["epochs"][::-1]),
                                                         lambda h: h["v"]["len"] >= 2)) is not None,
            "replay comparator accepted reversed epochs")
    i, b = pick(lambda b: has(b, "record") and b["cfg"]["log"] and len(b["hist"][0]["keys"]) >= 2
                and any(h["h"] == "record" and h["row"]["cells"][0] != h["row"]["cells"][3] for h in b["hist"]))
    control(chk, replay_case(b, i, seed, workdir, change(
        "record", lambda h: h["row"].update(cells=h["row"]["cells"][3:6] + h["row"]["cells"][0:3] + h["row"]["cells"][6:]),
        lambda h: h["row"]["cells"][0] != h["row"]["cells"][3])) is not None,
        "replay comparator accepted CSV columns in another order")


def run(chk, tier, seed):
    quick = tier == "quick"
    rng = random.Random(seed * 7919 + 41)
    info = chk.extra.setdefault("ext_userobs", {})
    workdir = tempfile.mkdtemp(prefix="verif-userobs-run-")
    try:
        with warnings.catch_warnings(), cf.ThreadPoolExecutor(max_workers=8) as pool:
            warnings.simplefilter("ignore")          # torch.var_mean of one sample warns
            sh = shards(tier)
            f_mc = pool.submit(run_mc, sh)
            small = small_shard()
            ctl = {what: pool.submit(run_mc, small, False, [inv], over, 2) for what, over, inv in
                   (SPEC_CONTROLS[:3] if quick else SPEC_CONTROLS)}
            want = {what: inv for what, _, inv in SPEC_CONTROLS}

            # ---- code -> spec: sessions recorded while TLC enumerates
            lines, metas, bad = record_sessions(rng, 60 if quick else 700, seed, workdir)
            for key, detail in bad[:20]:
                chk.violation(key, detail)
            good, gmeta = [], []
            for ln, m in zip(lines, metas):
                i = trace_malformed(ln)
                if i is not None:
                    chk.violation(K + "trace:malformed:" + str(ln["ev"][i].get("e")), dict(m, event=ln["ev"][i]))
                else:
                    good.append(ln)
                    gmeta.append(m)
            deferred = []          # machinery problems that only count if the implementation turns out to agree
            if len(good) < (40 if quick else 500):
                deferred.append("only %d sessions produced a trace" % len(good))
            try:
                t_bad = corrupted_traces(good)
                for what, ln in t_bad:
                    if trace_malformed(ln) is not None:
                        raise common.MachineryError("control trace malformed: " + what)
            except Exception as ex:  # noqa: BLE001 - donors are missing / odd on an implementation that disagrees
                deferred.append("negative-control sessions could not be built: %r" % (ex,))
                t_bad = []
            f_tr = pool.submit(validate_traces, good + [ln for _, ln in t_bad])

            tutorial_phase(chk, tier, seed, workdir)
            info["a writing apply corrupts what later members see (no defensive copy is promised)"] = writer_demo()

            # ---- spec -> code
            res = f_mc.result()
            chk.add_tlc(res, "UserObs.tla (collection / evaluator schedule / numbers shards, %s)" % tier)
            if res.violation:
                chk.violation(K + "spec:" + str(res.violation), dict(tlc=res.raw[-3000:]))
            behs = sorted(res.exports, key=lambda b: json.dumps(b["cfg"], sort_keys=True))     # TLC's order depends on its threads
            res.exports, res.raw = None, ""
            if len(behs) < (1000 if quick else 8000) and not res.violation:
                raise common.MachineryError("only %d behaviours exported" % len(behs))
            info["behaviours"] = len(behs)
            idx = list(range(len(behs)))
            if quick:
                rng.shuffle(idx)
                idx = sorted(idx[:700])
            n_bad = 0
            for i in idx:
                b = behs[i]
                out = replay_case(b, i, seed, workdir)
                chk.evaluations += 1
                if len(b["hist"]) > 3:
                    chk.nontriv(("replay", i))
                if out is not None:
                    n_bad += 1
                    if n_bad <= 40:
                        chk.violation(out[0], out[1])
            info["replayed"] = len(idx)
            dup = next((b for b in behs if len(b["hist"][0]["keys"]) < len(b["hist"][0]["names"]) and len(b["hist"]) > 8), None)
            if dup:
                chk.sample(dict(behaviour=dict(names=dup["hist"][0]["names"], keys=dup["hist"][0]["keys"],
                                               members=dup["hist"][0]["members"], header=dup["header"],
                                               events=[h["h"] for h in dup["hist"]][:30])))
            if not n_bad:
                replay_controls(chk, [behs[i] for i in idx], seed, workdir)

            # ---- traces
            rt, acc, matched = f_tr.result()
            chk.add_tlc(rt, "TraceUserObs.tla (%d recorded sessions)" % len(good))
            if rt.violation:
                chk.violation(K + "trace:invariant:" + str(rt.violation), dict(tlc=rt.raw[-3000:]))
            for j, (what, _) in enumerate(t_bad):
                control(chk, not acc[len(good) + j], "TraceUserObs accepted a session with " + what)
            for i, ok in enumerate(acc[:len(good)]):
                if ok:
                    chk.traces += 1
                    if len(good[i]["ev"]) > 4:
                        chk.nontriv(("trace", i))
                    continue
                ev = good[i]["ev"]
                nxt = ev[matched[i]] if matched[i] < len(ev) else None
                chk.violation(K + "trace:rejected:" + (nxt["e"] if nxt else "end"),
                              dict(gmeta[i], matched_events=matched[i], events_before=[e["e"] for e in ev[:matched[i]]][-8:],
                                   next_event=nxt))
            if good:
                chk.sample(dict(session=dict(meta={k: v for k, v in gmeta[0].items() if k != "cfg"}, script=gmeta[0]["cfg"]["script"],
                                             events=[e["e"] for e in good[0]["ev"]][:40])))
            for what, f in ctl.items():
                r = f.result()
                chk.add_tlc(r, "control: " + what)
                chk.control(r.violation == want[what], "specification control: " + what + " (got %r)" % (r.violation,))
            info["observed"] = dict(OBSERVED)
            if deferred and not chk.violations:
                raise common.MachineryError("; ".join(deferred))
    finally:
        shutil.rmtree(workdir, ignore_errors=True)
    chk.assumptions += [
        "user observables: apply returns one real number per sample and does not write into the tensor it is given (it is "
        "handed the live chain buffer; no defensive copy is promised or demanded); the per-sample value times a common scale "
        "(num_visible) is a small integer, so every statistic is an exact rational; reported float64 numbers are compared at "
        "1e-12 relative (replay) / +-2e-6 (traces); the unbiased variance of a single sample is not compared",
        "the contents of a draw are the environment: in replays nn_state.sample (wrapped on the instance) runs and the buffer it "
        "returns is then filled with the case's stream; in recorded sessions the sampler runs freely.  apply calls are observed "
        "through an instance-level wrapper on every registered observable (nested leaf calls of a composite are not events)",
        "System: two observables of one name share one entry (position of the first, object of the last) - "
        "ObservableEvaluator's docstring says so, System's is silent; the same python object registered twice, observable "
        "names that are attributes of the evaluator, user-provided initial chains and non-linear composites are out of scope",
    ]
    chk.rule += ("  || ext_userobs: every case of UserObs.tla inside the bounds (lists of <= 3 observables from a pool with "
                 "duplicate names, composites and built-ins; periods 1..3, <= 4 epochs, second fit with / without clear_history; "
                 "every stream over a 3-letter alphabet x every (num_samples, num_chains) x every direct operation); "
                 "non-trivial = a behaviour with more than three observable events")
    return chk
