"""C19 - Basis-state indexing and data loading are mutually consistent.

TLC: spec/Bits.tla through spec/IndexWalk.tla - for every n <= 8 and every k:
Index(Row(n,k)) = k, Row(n, Index(b)) = b for every bit row b, rows in increasing k are in
lexicographic order (all pairs), |b_1> (x) ... (x) |b_n> is the unit vector at Index(b)
(block definition of the tensor product = Row formula), MaxSize; Unitaries.OneConvention
(dense Kronecker product by blocks = by Row) for every string in {X,Y,Z}^n, n <= 3;
spec/DataFile.tla - every pair of files with <= 3 rows and <= 2 sites over {X,Y,Z}:
loaders are the identity on rows, ExtractRef returns exactly the all-Z rows in order.

spec -> code: rows exported by TLC (all of n <= 12, seeded samples for n = 13..20) against
generate_hilbert_space / subspace_vector / _convert_basis_element_to_index, the size limit,
position semantics through the library's array consumers (rotate_psi on unit vectors,
fidelity against unit targets, psi(space) / rho(space, space) entries), the enumerated files
written to disk and loaded with load_data / load_data_DM / extract_refbasis_samples.
code -> spec: seeded larger files validated by spec/TraceData.tla.
"""
import copy
import json
import os
import random
import shutil
import tempfile

import numpy as np
import torch

import common
import tlc
import rot_tlc as R

PID = "C19"


def run(tier, seed):
    import rot_lib as L
    import rot_data as D
    chk = R.cap_violations(common.Check(PID, tier, seed))
    rng = random.Random(seed)
    quick = tier == "quick"
    chk.rule = ("TLC: every (n, k), n <= 8 (10 thorough) with all pairwise order / tensor-position facts, rows exported for "
                "all n <= 12 (14) and for seeded k beyond, up to n = 20 (0, 2^n-1, powers of two, random); every string in "
                "{X,Y,Z}^n, n <= 3 (4), for OneConvention; every bases file with <= 3 (4) rows and <= 2 sites over {X,Y,Z} "
                "x 3 sample patterns. "
                "Each exported row / column / file is replayed into the library; non-trivial = a row that is not a "
                "palindrome (bit order matters), a file with at least one all-Z row and one row with a Z that is not all Z")
    # ---------------------------------------------------------------- TLC
    nfull, nrows_max, frows, nstr = (8, 12, 3, 3) if quick else (10, 14, 4, 4)
    samples = set()
    for n in range(nrows_max + 1, 23):
        ks = {0, 2 ** n - 1, 1, 2 ** (n - 1), 2 ** (n - 1) - 1, 2 ** (n // 2)}
        ks |= {rng.randrange(2 ** n) for _ in range(10 if quick else 40)}
        samples |= {(n, k) for k in ks}
    sdef = "{" + ", ".join("<<%d, %d>>" % p for p in sorted(samples)) + "}"
    rows_run = tlc.run("IndexWalk", constants={"NFull": nfull, "NMaxRows": nrows_max, "Chunk": 16},
                       defs={"Samples": sdef, "BasisSet": "{}"}, init="InitRows", next="NextRows",
                       invariants=["RowsOK", "SizeLimit", "ExportRow"], timeout=1500, env=R.JAVA_ENV)
    chk.add_tlc(rows_run, "Bits.tla via IndexWalk (rows): IndexOfRow, RowOfIndex, LexAfter, KetPosition, SizeLimit")
    cols_run = tlc.run("IndexWalk", constants={"NFull": 1, "NMaxRows": 1, "Chunk": 1},
                       defs={"Samples": "{}", "BasisSet": R.strings(R.XYZ, 1, nstr)}, init="InitBasis", next="NextBasis",
                       invariants=["DictOK", "BasisOK", "ExportColumn", "ExportDict"], timeout=1500, env=R.JAVA_ENV)
    chk.add_tlc(cols_run, "Unitaries.tla via IndexWalk (strings): OneConvention (block = Row definition)")
    files_run = tlc.run("DataFile", constants={"MaxRows": frows, "MaxSites": 2, "Alphabet": {"X", "Y", "Z"}},
                        invariants=["RefExact", "RefNotAny", "PsiLayout", "DMLayout", "Export"], timeout=1500, env=R.JAVA_ENV)
    chk.add_tlc(files_run, "DataFile.tla: RefExact, RefNotAny, PsiLayout, DMLayout")
    for res, name in ((rows_run, "Bits"), (cols_run, "Unitaries"), (files_run, "DataFile")):
        if res.violation:
            chk.violation("spec:%s:%s" % (name, res.violation), dict(tlc=res.raw[-4000:]))
    if chk.violations:
        return chk.finish()
    rows = {(e["n"], e["k"]): e for e in rows_run.exports if "row" in e and "index" in e}
    if len(rows) != 2 ** (nrows_max + 1) - 2 + len(samples):
        raise common.MachineryError("row export incomplete: %d" % len(rows))

    # ---------------------------------------------------------------- rows, vectors, indices, size limit
    guarded(chk, "index", index_checks, chk, rows, rng, quick, L)
    # ---------------------------------------------------------------- positions of the library's arrays
    guarded(chk, "position", position_checks, chk, rows, cols_run.exports, seed, L)
    # ---------------------------------------------------------------- data files
    d = tempfile.mkdtemp(prefix="verif-c19-")
    try:
        guarded(chk, "files:enumerated", enumerated_files, chk,
                sorted(files_run.exports, key=lambda e: json.dumps(e, sort_keys=True)), d, rng, D)
        guarded(chk, "files:seeded", seeded_files, chk, d, rng, quick, D)
    finally:
        shutil.rmtree(d, ignore_errors=True)
    chk.assumptions += [
        "numpy.loadtxt collapses single-row / single-column files to 1-D (single cells to 0-D); contents are compared "
        "row-major and the collapse is counted in the evidence, not judged",
        "tokens are separated by blanks, one row per line, no comment characters; basis tokens are non-empty strings "
        "without blanks or '#'",
        "targets: each numeric token must be returned as a binary32 number nearest to its decimal value",
        "n = 19, 20 are generated in full only in the thorough tier; the acceptance boundary is also exercised through a "
        "subclass whose max_size is 5 (same guard code)",
        "CPU",
    ]
    # ---------------------------------------------------------------- comparator controls
    if chk.violations:           # controls are meaningful only where the uncorrupted comparison passed
        return chk.finish()
    ctl = common.Check(PID, tier, seed)
    bad = copy.deepcopy(rows)
    e = bad[(5, 11)]
    e["row"] = e["row"][::-1]                               # the little-endian row
    index_checks(ctl, bad, random.Random(1), True, L, only_n=5)
    chk.control(any(k.startswith("generate_hilbert_space") for k, _ in ctl.violations)
                and any(k.startswith("subspace_vector") for k, _ in ctl.violations),
                "a reversed (little-endian) expected row compared equal")
    # an expected target layout with real and imaginary columns exchanged must be flagged
    ctl = common.Check(PID, tier, seed)
    ref = next(e for e in files_run.exports if e["kind"] == "ref" and e["nsites"] == 2 and e["nrows"] == 3)
    tg = copy.deepcopy([e for e in files_run.exports if e["kind"] in ("psi", "dm")])
    for e in tg:
        if e["kind"] == "psi":
            e["loaded"]["re"], e["loaded"]["im"] = e["loaded"]["im"], e["loaded"]["re"]
    d = tempfile.mkdtemp(prefix="verif-c19-")
    try:
        enumerated_files(ctl, [ref] + tg, d, random.Random(2), D)
    finally:
        shutil.rmtree(d, ignore_errors=True)
    chk.control(any(k == "load:enumerated:target-psi:layout" for k, _ in ctl.violations),
                "an expected wavefunction target with real / imaginary parts exchanged compared equal")
    return chk.finish()


def guarded(chk, section, fn, *args):
    """an exception raised by the library on inputs inside the property's domain is a violation, not a
    machinery failure (machinery errors keep propagating)"""
    try:
        fn(*args)
    except (common.MachineryError, tlc.TLCError):
        raise
    except Exception as ex:
        import traceback
        chk.violation("exception:%s:%s" % (section, type(ex).__name__),
                      dict(error=repr(ex), where=traceback.format_exc()[-2000:]))


# ==================================================================== indices
def index_checks(chk, rows, rng, quick, L, only_n=None):
    from qucumber.nn_states import PositiveWaveFunction, ComplexWaveFunction, DensityMatrix
    un = L.un
    full_max = 18 if quick else 20
    by_n = {}
    for (n, k), e in rows.items():
        by_n.setdefault(n, []).append(k)
    states = {}

    def state(n):
        nn = min(n, 6)
        if nn not in states:
            states[nn] = [PositiveWaveFunction(nn, 2, gpu=False), ComplexWaveFunction(nn, 2, gpu=False),
                          DensityMatrix(nn, 2, 2, gpu=False)][nn % 3]
        return states[nn]

    for n in sorted(by_n):
        if only_n is not None and n != only_n:
            continue
        ks = sorted(by_n[n])
        st = state(n)
        accepted = rows[(n, ks[0])]["accepted"]
        # ---- size limit
        if not accepted:
            import numpy as _np
            for size in (n, _np.int64(n)):               # the size as a Python int and as a numpy integer
                try:
                    st.generate_hilbert_space(size)
                    chk.violation("generate_hilbert_space:limit:accepted-%d" % n, dict(n=n, size_type=type(size).__name__))
                except ValueError:
                    chk.nontriv(("refused", n))
                chk.evaluations += 1
            continue
        space = None
        if n <= full_max:
            try:
                space = st.generate_hilbert_space(n)
            except ValueError as ex:
                chk.violation("generate_hilbert_space:limit:refused-%d" % n, dict(n=n, error=repr(ex)))
            chk.evaluations += 1
        if space is not None:
            if tuple(space.shape) != (2 ** n, n) or space.dtype != torch.double:
                chk.violation("generate_hilbert_space:shape", dict(n=n, shape=tuple(space.shape), dtype=str(space.dtype)))
                continue
            if len(ks) == 2 ** n:
                want = [rows[(n, k)]["row"] for k in range(2 ** n)]
                got = space.to(torch.int64).tolist()
                if got != want:
                    k = next(i for i in range(2 ** n) if got[i] != want[i])
                    chk.violation("generate_hilbert_space:row", dict(n=n, k=k, expected=want[k], got=got[k]))
                # the default size is the number of visible units
                if n <= 6 and not torch.equal(st.generate_hilbert_space(), space):
                    chk.violation("generate_hilbert_space:default-size", dict(n=n))
                # an explicit size other than the state's own, as a Python int and as numpy integers (what
                # (basis != "Z").sum() or len-arithmetic on arrays hands over)
                m = n - 1
                if 1 <= m <= 8 and len(by_n.get(m, ())) == 2 ** m:
                    import numpy as _np
                    want_m = [rows[(m, k)]["row"] for k in range(2 ** m)]
                    for size in (m, _np.int64(m), _np.int32(m), _np.array(m)[()]):
                        chk.evaluations += 1
                        got_m = st.generate_hilbert_space(size)
                        if tuple(got_m.shape) != (2 ** m, m) or got_m.to(torch.int64).tolist() != want_m:
                            chk.violation("generate_hilbert_space:size-argument",
                                          dict(state_sites=n, size=m, size_type=type(size).__name__, shape=tuple(got_m.shape)))
                            break
                # the documented optional device argument, in every form a device can be named
                if n <= 8:
                    for dev in ("cpu", torch.device("cpu"), st.device):
                        chk.evaluations += 1
                        for form, sp2 in (("keyword", st.generate_hilbert_space(n, device=dev)),
                                          ("positional", st.generate_hilbert_space(n, dev)),
                                          ("default-size", st.generate_hilbert_space(device=dev) if n <= 6 else space)):
                            if sp2.dtype != space.dtype or not torch.equal(sp2, space):
                                chk.violation("generate_hilbert_space:device-argument",
                                              dict(n=n, device=repr(dev), form=form, got=sp2.to(torch.int64).tolist()[:4],
                                                   expected=want[:4]))
                                break
                idx = un._convert_basis_element_to_index(space)
                if idx.to(torch.int64).tolist() != [rows[(n, k)]["index"] for k in range(2 ** n)]:
                    chk.violation("_convert_basis_element_to_index:space", dict(n=n))
            else:
                for k in ks:
                    got = space[k].to(torch.int64).tolist()
                    if got != rows[(n, k)]["row"]:
                        chk.violation("generate_hilbert_space:row", dict(n=n, k=k, expected=rows[(n, k)]["row"], got=got))
            del space
        # ---- single vectors and indices (no size limit applies here)
        for k in ks:
            e = rows[(n, k)]
            v = st.subspace_vector(k, n)
            chk.evaluations += 1
            if v.to(torch.int64).tolist() != e["row"] or v.dtype != torch.double:
                chk.violation("subspace_vector:row", dict(n=n, k=k, expected=e["row"], got=v.tolist()))
            if k % 5 == 0:
                dev = ("cpu", torch.device("cpu"), st.device)[(k // 5) % 3]
                for v2 in (st.subspace_vector(k, n, device=dev), st.subspace_vector(k, n, dev), st.subspace_vector(k, size=n, device=dev)):
                    if v2.dtype != torch.double or v2.to(torch.int64).tolist() != e["row"]:
                        chk.violation("subspace_vector:device-argument", dict(n=n, k=k, device=repr(dev), expected=e["row"], got=v2.tolist()))
                        break
            i = un._convert_basis_element_to_index(torch.tensor(e["row"], dtype=torch.double))
            if int(i) != e["index"] or e["index"] != k:
                chk.violation("_convert_basis_element_to_index:row", dict(n=n, row=e["row"], expected=e["index"], got=int(i)))
            if e["row"] != e["row"][::-1]:
                chk.nontriv((n, k))
        # batched index computation in the (T, B, n) layout used by the expansion
        pick = [rng.choice(ks) for _ in range(12)]
        t = torch.tensor([rows[(n, k)]["row"] for k in pick], dtype=torch.double).reshape(3, 4, n)
        if un._convert_basis_element_to_index(t).to(torch.int64).reshape(-1).tolist() != pick:
            chk.violation("_convert_basis_element_to_index:batch", dict(n=n, rows=pick))
        # subspace_vector's default size is the number of visible units
        if n <= 6:
            k = rng.choice(ks)
            if st.subspace_vector(k).to(torch.int64).tolist() != rows[(n, k)]["row"]:
                chk.violation("subspace_vector:default-size", dict(n=n, k=k))
    if only_n is not None:
        return
    # ---- the limit itself: 20, and the guard's boundary through a subclass with a small limit
    st = state(3)
    chk.evaluations += 1
    if st.max_size != 20:
        chk.violation("max_size:value", dict(got=st.max_size))

    class Small(PositiveWaveFunction):
        max_size = property(lambda self: 5)

    sm = Small(2, 2, gpu=False)
    try:
        ok = tuple(sm.generate_hilbert_space(5).shape) == (32, 5)
    except ValueError:
        ok = False
    if not ok:
        chk.violation("generate_hilbert_space:limit:size-equal-to-limit-refused", dict(max_size=5, size=5))
    try:
        sm.generate_hilbert_space(6)
        chk.violation("generate_hilbert_space:limit:size-above-limit-accepted", dict(max_size=5, size=6))
    except ValueError:
        pass
    # a generated space belongs to the caller: writing into it (e.g. using it as an overwritten start state of
    # a Gibbs chain) must not change what later calls return - on the same or on another state object
    for n_ in (1, 2, 3):
        a = state(n_)
        b = state(n_)
        first = a.generate_hilbert_space(n_)
        want = first.clone()
        first.mul_(-1).add_(1)                                     # all bits flipped, in place
        a.sample(1, initial_state=a.generate_hilbert_space(n_), overwrite=True)
        for who, st_ in (("same-object", a), ("other-object", b)):
            chk.evaluations += 1
            again = st_.generate_hilbert_space(n_)
            if not torch.equal(again, want):
                chk.violation("generate_hilbert_space:aliased-result:" + who,
                              dict(n=n_, expected=want.tolist(), got=again.tolist()))
        for k_ in range(2 ** n_):
            if not torch.equal(a.subspace_vector(k_, n_), want[k_]):
                chk.violation("subspace_vector:after-in-place-use", dict(n=n_, k=k_))
                break
    # the limit applies to the DEFAULT size too (a state with more visible units than the limit;
    # fidelity / KL / NLL call generate_hilbert_space() without a size), for every state type
    from qucumber.nn_states import ComplexWaveFunction, DensityMatrix

    class SmallC(ComplexWaveFunction):
        max_size = property(lambda self: 5)

    class SmallD(DensityMatrix):
        max_size = property(lambda self: 5)
    for big in (Small(6, 2, gpu=False), SmallC(7, 2, gpu=False), SmallD(6, 2, 2, gpu=False)):
        chk.evaluations += 1
        try:
            sp_ = big.generate_hilbert_space()
            chk.violation("generate_hilbert_space:limit:default-size-above-limit-accepted",
                          dict(max_size=5, num_visible=big.num_visible, returned_shape=list(sp_.shape)))
        except ValueError:
            pass
    for fits in (Small(5, 2, gpu=False), SmallD(4, 2, 2, gpu=False)):
        chk.evaluations += 1
        try:
            ok = tuple(fits.generate_hilbert_space().shape) == (2 ** fits.num_visible, fits.num_visible)
        except ValueError:
            ok = False
        if not ok:
            chk.violation("generate_hilbert_space:limit:default-size-within-limit-refused", dict(num_visible=fits.num_visible))


# ==================================================================== positions
def position_checks(chk, rows, col_exports, seed, L):
    """position k of the arrays the library accepts / produces denotes Row(n, k)"""
    from qucumber.utils import training_statistics as ts
    un = L.un
    gen = torch.Generator().manual_seed(seed % (2 ** 31))
    # rotate_psi on unit vectors: column k of the dense unitary, computed through Row by TLC
    for e in sorted(col_exports, key=lambda e: json.dumps(e, sort_keys=True)):
        if "col" not in e:
            continue
        letters = e["basis"]
        n, k = len(letters), e["k"]
        st = L.state_for("complex", n)
        space = L.space_tensor([rows[(n, j)]["row"] for j in range(2 ** n)])
        x = [[1, 0] if j == k else [0, 0] for j in range(2 ** n)]
        out = un.rotate_psi(st, "".join(letters), space, psi=L.vec_tensor(x))
        got, err = L.to_gauss(out, L.sqrt2pow(e["nfac"]))
        chk.evaluations += 1
        if err > L.INT_TOL or got != e["col"]:
            chk.violation("position:rotate_psi:unit-vector", dict(basis="".join(letters), k=k, row=e["row"],
                                                                  expected=e["col"], got=got))
        if len(set(letters)) > 1:
            chk.nontriv(("col", "".join(letters), k))
    # model arrays: entry k of psi(space) is psi(Row(n,k)); entry (k,l) of rho(space,space) is rho(Row k, Row l);
    # fidelity against the unit target e_k picks |psi(Row(n,k))|^2 / Z
    for n in (1, 2, 3, 4):
        N = 2 ** n
        rws = [rows[(n, j)]["row"] for j in range(N)]
        space = L.space_tensor(rws)
        for skind in ("positive", "complex", "density"):
            st = L._make(skind, n, None)
            L.randomise(st, gen)
            Z = float(st.normalization(space))
            lib_space = st.generate_hilbert_space(n)
            if skind != "density":
                arr = L.cplx.numpy(st.psi(lib_space))
                for k in range(N):
                    one = L.cplx.numpy(st.psi(L.space_tensor([rws[k]])))[0]
                    chk.evaluations += 1
                    if abs(arr[k] - one) > 1e-12 * max(1.0, abs(one)):
                        chk.violation("position:psi(space):" + skind, dict(n=n, k=k, row=rws[k]))
                    tgt = L.vec_tensor([[1, 0] if j == k else [0, 0] for j in range(N)])
                    f = ts.fidelity(st, tgt, lib_space)
                    f2 = ts.fidelity(st, tgt)                      # default space
                    want = abs(one) ** 2 / Z
                    if abs(f - want) > 1e-10 * max(want, 1e-300) + 1e-15 or abs(f2 - f) > 1e-12:
                        chk.violation("position:fidelity:unit-target:" + skind, dict(n=n, k=k, row=rws[k], expected=want, got=f))
            else:
                arr = L.cplx.numpy(st.rho(lib_space, lib_space))
                for k in range(N):
                    for m in range(N):
                        one = L.cplx.numpy(st.rho(L.space_tensor([rws[k]]), L.space_tensor([rws[m]])))[0, 0]
                        chk.evaluations += 1
                        if abs(arr[k, m] - one) > 1e-12 * max(1.0, abs(one)):
                            chk.violation("position:rho(space,space)", dict(n=n, k=k, l=m, rows=[rws[k], rws[m]]))
                    tgt = L.mat_tensor([[[1, 0] if (i == k and j == k) else [0, 0] for j in range(N)] for i in range(N)])
                    f = ts.fidelity(st, tgt, lib_space)
                    want = float(np.real(L.cplx.numpy(st.rho(L.space_tensor([rws[k]]), L.space_tensor([rws[k]])))[0, 0])) / Z
                    if abs(f - want) > 1e-6 * max(want, 1e-300) + 1e-14:   # eigenvalue-based; only the position is judged
                        chk.violation("position:fidelity:unit-target:density", dict(n=n, k=k, row=rws[k], expected=want, got=float(f)))


# ==================================================================== files
def load_case(D, d, tag, sample_rows, bases_rows, style, allbases=None, psi=None, dm=None):
    """write the files, call the loader, return (loaded list, what was written as parsed back)"""
    ps, pb = os.path.join(d, tag + "_samples.txt"), os.path.join(d, tag + "_bases.txt")
    D.write_rows(ps, D.bit_tokens(sample_rows, style))
    D.write_rows(pb, bases_rows)
    kw, files = {}, dict(samples=D.parse_rows(ps), bases=D.parse_rows(pb))
    if allbases is not None:
        pa = os.path.join(d, tag + "_allbases.txt")
        D.write_rows(pa, allbases)
        kw["bases_path"] = pa
        files["allbases"] = D.parse_rows(pa)
    if psi is not None:
        pp = os.path.join(d, tag + "_psi.txt")
        D.write_rows(pp, psi)
        files["psi"] = D.parse_rows(pp)
        out = D.qdata.load_data(ps, pp, pb, **kw)
    elif dm is not None:
        pr, pi = os.path.join(d, tag + "_re.txt"), os.path.join(d, tag + "_im.txt")
        D.write_rows(pr, dm[0])
        D.write_rows(pi, dm[1])
        files["dm"] = (D.parse_rows(pr), D.parse_rows(pi))
        out = D.qdata.load_data_DM(ps, pr, pi, pb, **kw)
    else:
        out = D.qdata.load_data(ps, tr_bases_path=pb, **kw) if style % 2 else D.qdata.load_data_DM(ps, tr_bases_path=pb, **kw)
    for p in os.listdir(d):
        os.unlink(os.path.join(d, p))
    return out, files


def compare_loaded(chk, D, out, files, key, info):
    """cell by cell, row-major; returns (samples 2-D, bases 2-D, collapsed?)"""
    want_len = 2 + ("psi" in files or "dm" in files) + ("allbases" in files)
    if len(out) != want_len:
        chk.violation(key + ":return-length", dict(info, expected=want_len, got=len(out)))
        return None
    it = iter(out)
    smp = next(it)
    nrows, ncols = len(files["samples"]), len(files["samples"][0])
    collapsed = smp.dim() != 2
    if D.flat(smp) != [float(t) for r in files["samples"] for t in r] or smp.dtype != torch.double:
        chk.violation(key + ":samples", dict(info, written=files["samples"][:4], got=D.flat(smp)[:8]))
    if "psi" in files:
        tp = next(it)
        toks = files["psi"]
        ok = tuple(tp.shape) == (2, len(toks)) and tp.dtype == torch.double
        if ok:
            for k, (tre, tim) in enumerate(toks):
                if not (D.is_single_of(float(tp[0, k]), tre) and D.is_single_of(float(tp[1, k]), tim)):
                    ok = False
                    swapped = D.is_single_of(float(tp[0, k]), tim) and D.is_single_of(float(tp[1, k]), tre)
                    chk.violation(key + ":target-psi" + (":re-im-swapped" if swapped else ""),
                                  dict(info, row=k, written=[tre, tim], got=[float(tp[0, k]), float(tp[1, k])]))
                    break
        else:
            chk.violation(key + ":target-psi:shape", dict(info, shape=tuple(tp.shape)))
    if "dm" in files:
        tm = next(it)
        fre, fim = files["dm"]
        N = len(fre)
        if tuple(tm.shape) != (2, N, N) or tm.dtype != torch.double:
            chk.violation(key + ":target-dm:shape", dict(info, shape=tuple(tm.shape)))
        else:
            bad = [(i, j) for i in range(N) for j in range(N)
                   if not (D.is_single_of(float(tm[0, i, j]), fre[i][j]) and D.is_single_of(float(tm[1, i, j]), fim[i][j]))]
            if bad:
                i, j = bad[0]
                chk.violation(key + ":target-dm", dict(info, cell=[i, j], written=[fre[i][j], fim[i][j]],
                                                       got=[float(tm[0, i, j]), float(tm[1, i, j])]))
    bs = next(it)
    collapsed = collapsed or np.asarray(bs).ndim != 2
    if D.flat(bs) != [t for r in files["bases"] for t in r]:
        chk.violation(key + ":bases", dict(info, written=files["bases"][:4], got=D.flat(bs)[:8]))
    if "allbases" in files:
        ab = next(it)
        if D.flat(ab) != [t for r in files["allbases"] for t in r]:
            chk.violation(key + ":all-bases", dict(info, written=files["allbases"][:4], got=D.flat(ab)[:8]))
        elif np.asarray(ab).ndim < 1 or len(np.asarray(ab)) not in (len(files["allbases"]), len(D.flat(ab))):
            # one entry per listed basis (a list of ONE basis is still a list: it is iterated over by KL / NLL)
            chk.violation(key + ":all-bases:shape", dict(info, written=files["allbases"][:4], shape=list(np.asarray(ab).shape)))
    return D.as_2d(smp, nrows, ncols), D.as_2d(bs, nrows, ncols), collapsed


def enumerated_files(chk, exports, d, rng, D):
    collapsed_n = 0
    targets = {}
    for e in exports:
        if e["kind"] in ("psi", "dm"):
            targets[(e["kind"], e["nsites"])] = e
    toks = {}

    def tok(i):
        if i not in toks:
            toks[i] = D.decimal_token(rng)
        return toks[i]

    for c, e in enumerate(exports):
        if e["kind"] != "ref":
            continue
        n = e["nsites"]
        info = dict(samples=e["samples"], bases=e["bases"])
        psi = dm = None
        pe = de = None
        if c % 7 == 0:
            pe = targets[("psi", n)]
            psi = [[tok(t) for t in r] for r in pe["samples"]]
        elif c % 7 == 1:
            de = targets[("dm", n)]
            dm = ([[tok(t) for t in r] for r in de["samples"][0]], [[tok(t) for t in r] for r in de["samples"][1]])
        allb = [["".join(r)] for r in e["bases"]] if c % 5 == 0 else (e["bases"] if c % 5 == 1 else None)
        out, files = load_case(D, d, "e%d" % c, e["samples"], e["bases"], c, allbases=allb, psi=psi, dm=dm)
        chk.evaluations += 1
        if files["samples"] != D.bit_tokens(e["samples"], c) or files["bases"] != e["bases"]:
            raise common.MachineryError("file was not written as specified")
        r = compare_loaded(chk, D, out, files, "load:enumerated", info)
        if r is None:
            continue
        smp2, bs2, coll = r
        collapsed_n += bool(coll)
        # targets against the layout DataFile.tla exported (token ids -> decimal strings)
        if pe is not None:
            tp = out[1]
            for k in range(len(pe["loaded"]["re"])):
                if not (D.is_single_of(float(tp[0, k]), tok(pe["loaded"]["re"][k]))
                        and D.is_single_of(float(tp[1, k]), tok(pe["loaded"]["im"][k]))):
                    chk.violation("load:enumerated:target-psi:layout", dict(info, position=k))
                    break
        if de is not None:
            tm = out[1]
            N = len(de["loaded"]["re"])
            if any(not (D.is_single_of(float(tm[0, i, j]), tok(de["loaded"]["re"][i][j]))
                        and D.is_single_of(float(tm[1, i, j]), tok(de["loaded"]["im"][i][j])))
                   for i in range(N) for j in range(N)):
                chk.violation("load:enumerated:target-dm:layout", dict(info))
        # reference-basis extraction on what the loader returned (reshaped to 2-D when loadtxt collapsed it)
        z = D.qdata.extract_refbasis_samples(smp2, bs2)
        got = z.to(torch.int64).tolist()
        if got != e["loaded"]["ref"] or z.dim() != 2:
            chk.violation("extract_refbasis_samples:enumerated", dict(info, expected=e["loaded"]["ref"], got=got))
        # the same bases in other array layouts a user legitimately ends up with (column-major storage after a
        # column selection / transpose, a non-contiguous view, an object array): same rows, same answer
        if bs2.ndim == 2 and bs2.shape[0] >= 1:
            wide = np.concatenate([bs2, bs2], axis=1)
            variants = [("fortran", np.asfortranarray(bs2)), ("transposed-build", np.array(bs2.T.tolist()).T),
                        ("column-view", wide[:, :bs2.shape[1]]), ("fancy-columns", bs2[:, list(range(bs2.shape[1]))]),
                        ("object", bs2.astype(object))]
            for vname, arr in variants:
                if arr.shape != bs2.shape or not (arr == bs2).all():
                    raise common.MachineryError("layout variant %s is not the same array" % vname)
                zz = D.qdata.extract_refbasis_samples(smp2, arr)
                chk.evaluations += 1
                if zz.to(torch.int64).tolist() != e["loaded"]["ref"]:
                    chk.violation("extract_refbasis_samples:array-layout:" + vname,
                                  dict(info, expected=e["loaded"]["ref"], got=zz.to(torch.int64).tolist()))
        zs = [r for r in e["bases"] if all(t == "Z" for t in r)]
        some = [r for r in e["bases"] if "Z" in r and not all(t == "Z" for t in r)]
        if zs and some:
            chk.nontriv(("file", json.dumps(e["bases"]), json.dumps(e["samples"])))
    chk.extra["files_collapsed_by_loadtxt"] = collapsed_n
    # the documented refusal: only one half of a density-matrix target
    p = os.path.join(d, "s.txt")
    D.write_rows(p, [[0, 1], [1, 0]])
    for kw in (dict(tr_mtx_real_path=p), dict(tr_mtx_imag_path=p)):
        try:
            D.qdata.load_data_DM(p, **kw)
            chk.violation("load_data_DM:half-target-accepted", dict(given=list(kw)))
        except ValueError:
            pass
    os.unlink(p)


def seeded_files(chk, d, rng, quick, D):
    """code -> spec: larger files (any N, n, alphabet, complex targets) validated by TraceData.tla"""
    lines, infos = [], []
    alphabets = [["X", "Y", "Z"], ["Z", "X"], ["X", "Y", "Z", "S", "R", "W"], ["Z", "Rx", "Hd"], ["z", "Z", "ZZ"]]
    for c in range(60 if quick else 400):
        N = rng.choice([2, 3, 5, 17, 64, 200 if not quick else 40])
        n = rng.choice([2, 3, 4, 7, 12])
        alpha = alphabets[c % len(alphabets)]
        pz = rng.choice([0.5, 0.8, 0.95])
        bases = [[("Z" if rng.random() < pz else rng.choice(alpha)) for _ in range(n)] for _ in range(N)]
        if c % 4 == 0:
            bases[rng.randrange(N)] = ["Z"] * n
        samples = [[rng.randint(0, 1) for _ in range(n)] for _ in range(N)]
        psi = dm = None
        nt = rng.choice([1, 2, 3])
        if c % 3 == 0:
            psi = [[D.decimal_token(rng), D.decimal_token(rng)] for _ in range(2 ** nt)]
        elif c % 3 == 1:
            dm = ([[D.decimal_token(rng) for _ in range(2 ** nt)] for _ in range(2 ** nt)],
                  [[D.decimal_token(rng) for _ in range(2 ** nt)] for _ in range(2 ** nt)])
        uniq = sorted({tuple(r) for r in bases})
        allb = [list(r) for r in uniq] if c % 2 else [["".join(r)] for r in uniq]
        out, files = load_case(D, d, "s%d" % c, samples, bases, c, allbases=allb, psi=psi, dm=dm)
        chk.evaluations += 1
        info = dict(N=N, n=n, alphabet=alpha, target="psi" if psi else "dm" if dm else None)
        r = compare_loaded(chk, D, out, files, "load:seeded", info)
        if r is None:
            continue
        smp2, bs2, _ = r
        z = D.qdata.extract_refbasis_samples(out[0], out[-2])
        lines.append(dict(bases=files["bases"], samples=[[int(float(t)) for t in row] for row in files["samples"]],
                          lsamples=smp2.to(torch.int64).tolist(), lbases=np.asarray(bs2).tolist(),
                          ref=z.to(torch.int64).tolist()))
        infos.append(info)
    # negative controls: the rows having a Z somewhere (".any"), and the right rows in the wrong order
    donor = next(ln for ln in lines if 2 <= len(ln["ref"]) and len({tuple(r) for r in ln["ref"]}) >= 2
                 and any("Z" in b and set(b) != {"Z"} for b in ln["bases"]))
    c1 = copy.deepcopy(donor)
    c1["ref"] = [s for s, b in zip(donor["samples"], donor["bases"]) if "Z" in b]
    c2 = copy.deepcopy(donor)
    i, j = next((i, j) for i in range(len(c2["ref"])) for j in range(i) if c2["ref"][i] != c2["ref"][j])
    c2["ref"][i], c2["ref"][j] = c2["ref"][j], c2["ref"][i]
    c3 = copy.deepcopy(donor)
    c3["lsamples"][0][0] = 1 - c3["lsamples"][0][0]
    ctl = [("extraction of every row containing a Z accepted", c1), ("extraction in the wrong order accepted", c2),
           ("a loaded sample bit differing from the file accepted", c3)]
    tdir = tempfile.mkdtemp(prefix="verif-c19t-")
    try:
        path = os.path.join(tdir, "traces.ndjson")
        with open(path, "w") as fh:
            for ln in lines + [c[1] for c in ctl]:
                fh.write(json.dumps(ln) + "\n")
        res = tlc.run("TraceData", constants={"MaxRows": 1, "MaxSites": 1, "Alphabet": {"Z"}}, init="TInit", next="TNext",
                      constraints=["Track"], postcondition="Verdicts", workers=1, timeout=1500, env=dict(R.JAVA_ENV, TRACE_FILE=path))
    finally:
        shutil.rmtree(tdir, ignore_errors=True)
    chk.add_tlc(res, "TraceData.tla (%d loads)" % len(lines))
    verdict = {e["tid"]: e for e in res.exports if isinstance(e, dict) and "tid" in e}
    if len(verdict) != len(lines) + len(ctl):
        raise common.MachineryError("verdicts missing\n" + res.raw[-2000:])
    for j, (name, _) in enumerate(ctl):
        chk.control(verdict[len(lines) + j + 1]["matched"] != 1, name)
    for i, ln in enumerate(lines):
        if verdict[i + 1]["matched"] == 1:
            chk.traces += 1
            if ln["ref"] and len(ln["ref"]) < len(ln["samples"]):
                chk.nontriv(("seeded-file", i))
        else:
            want = [s for s, b in zip(ln["samples"], ln["bases"]) if all(t == "Z" for t in b)]
            chk.violation("trace:load-or-extract:seeded", dict(infos[i], bases=ln["bases"][:6], ref_got=ln["ref"][:6],
                                                               ref_rows_expected=len(want), ref_rows_got=len(ln["ref"])))
    chk.sample(dict(seeded_file=infos[0], ref_rows=len(lines[0]["ref"])))


def replay(path):
    """./check C19 --replay <file>: re-run one recorded row / index / extraction case on the working tree."""
    import rot_lib as L
    import rot_data as D
    from qucumber.nn_states import PositiveWaveFunction
    with open(path) as fh:
        blob = json.load(fh)
    key, d = blob["key"], blob["detail"]
    st = PositiveWaveFunction(2, 2, gpu=False)
    if key == "generate_hilbert_space:row":
        got, want = st.generate_hilbert_space(d["n"])[d["k"]].to(torch.int64).tolist(), d["expected"]
    elif key == "subspace_vector:row":
        got, want = st.subspace_vector(d["k"], d["n"]).to(torch.int64).tolist(), d["expected"]
    elif key == "_convert_basis_element_to_index:row":
        got, want = int(L.un._convert_basis_element_to_index(torch.tensor(d["row"], dtype=torch.double))), d["expected"]
    elif key == "extract_refbasis_samples:enumerated":
        got = D.qdata.extract_refbasis_samples(torch.tensor(d["samples"], dtype=torch.double), np.array(d["bases"]))
        got, want = got.to(torch.int64).tolist(), d["expected"]
    else:
        print("C19 replay: key %s has no single-case replay; run ./check C19" % key)
        return 2
    print("%s  input=%s" % (key, {k: v for k, v in d.items() if k not in ("expected", "got")}))
    print("  expected (TLC): %s\n  got           : %s" % (want, got))
    if got == want:
        print("C19 replay: case agrees with the specification")
        return 0
    print("VIOLATION property=C19 replay=%s" % path)
    print("  key=%s" % key)
    return 1
