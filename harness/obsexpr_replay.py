"""Spec -> code binding for spec/ObsExpr.tla (property C16).

A record exported by TLC holds an expression tree `e`, its kind, the documented exception
(`fault`), the object graph the overloads must construct (`build`), the linear form the
expression denotes (`lin`, exact rationals) and a magnitude form (`mag`, for the floating-point
tolerance).  The tree is evaluated with *real Python operators* over real observables and
scalars; nothing below knows what an overload does - expected shapes and coefficients come from
the specification only.
"""
import json
import math
import random
from fractions import Fraction

import numpy as np
import torch

import common

REL = 1e-12


# ----------------------------------------------------------------------------- fixtures
class Fixture:
    """A real state with random non-zero parameters, a batch, leaf observables and the
    per-sample values of every leaf on that batch (computed by the leaves alone)."""

    def __init__(self, fid, kind, state, batch, leaves, desc):
        self.fid, self.kind, self.state, self.batch, self.leaves, self.desc = fid, kind, state, batch, leaves, desc
        self.vals = {}
        for name, obj in leaves.items():
            v = obj.apply(state, batch.clone())
            self.vals[name] = v.detach().numpy().astype(np.float64).copy()
        self.ident = {id(o): n for n, o in leaves.items()}


def _randomise(state, gen):
    for net in state.networks:
        for p in getattr(state, net).parameters():
            mag = torch.rand(p.shape, generator=gen, dtype=torch.double) * 0.8 + 0.2
            sgn = torch.randint(0, 2, p.shape, generator=gen).to(torch.double) * 2 - 1
            p.data = (mag * sgn).to(p.data.dtype)
            if bool((p.data == 0).any()):
                raise common.MachineryError("zero parameter in fixture")


def make_state(kind, nv, nh, na, seed):
    from qucumber.nn_states import PositiveWaveFunction, ComplexWaveFunction, DensityMatrix
    torch.manual_seed(seed)
    if kind == "positive":
        st = PositiveWaveFunction(nv, nh, gpu=False)
    elif kind == "complex":
        st = ComplexWaveFunction(nv, nh, gpu=False)
    else:
        st = DensityMatrix(nv, nh, na, gpu=False)
    gen = torch.Generator().manual_seed(seed + 1)
    _randomise(st, gen)
    return st


def _named(obs, name):
    obs.name = name          # names are the user's to set
    return obs


N_LEAFSETS = 5


def leaf_sets(names):
    """Assignments of built-in observables to the leaf names of the specification."""
    from qucumber.observables import SigmaZ, SigmaX, SigmaY, NeighbourInteraction, SWAP
    base = [
        lambda: dict(A=SigmaZ(), B=SigmaX(), C=NeighbourInteraction(c=1), D=SWAP(A=[0])),
        lambda: dict(A=SigmaX(), B=NeighbourInteraction(periodic_bcs=True, c=1), C=SigmaY(), D=SWAP(A=[0, 1])),
        lambda: dict(A=NeighbourInteraction(c=1), B=SigmaZ(absolute=True), C=SigmaX(absolute=True), D=SWAP(A=[1])),
        # different observables that print alike: a name does not identify an observable
        lambda: dict(A=SigmaZ(), B=SigmaZ(absolute=True), C=SWAP(A=[0]), D=SWAP(A=[0, 1])),
        lambda: dict(A=_named(SigmaX(), "Q"), B=_named(SigmaY(), "Q"), C=SigmaY(absolute=True), D=SigmaY()),
    ]
    return [{n: d[n] for n in names} for d in (f() for f in base)]


def build_fixture(fid, desc):
    """(Re)build a fixture from its description (also used by --replay)."""
    names = desc["names"]
    st = make_state(desc["kind"], desc["nv"], desc["nh"], desc["na"], desc["seed"])
    batch = torch.tensor(desc["batch"], dtype=torch.double)
    leaves = leaf_sets(names)[desc["leafset"]]
    return Fixture(fid, desc["kind"], st, batch, leaves, dict(desc, leaves={n: repr(o) for n, o in leaves.items()}))


def make_fixtures(seed, names, nvs, per_kind):
    rng = random.Random(seed)
    fx = []
    for ki, kind in enumerate(("positive", "complex", "density")):
        for j in range(per_kind):
            nv = nvs[j % len(nvs)]
            nh = rng.randint(1, 3)
            na = rng.randint(1, 2)
            s = rng.randrange(10 ** 6)
            bsz = [2, 5, 8, 3][j % 4]
            gen = torch.Generator().manual_seed(s + 2)
            batch = torch.randint(0, 2, (bsz, nv), generator=gen).to(torch.double)
            if j % 4 == 2:      # every basis state once (at most 8 of them), deterministic order
                allb = torch.tensor([[(i >> k) & 1 for k in range(nv)] for i in range(2 ** nv)], dtype=torch.double)
                batch = allb[:8].clone()
            fx.append(build_fixture(len(fx), dict(kind=kind, nv=nv, nh=nh, na=na, seed=s, batch=batch.tolist(),
                                                  leafset=(j + ki * per_kind) % N_LEAFSETS, names=list(names))))
    return fx


# ----------------------------------------------------------------------------- rendering
POLICIES = ("int", "float", "np", "bool", "mix")
BADS = {"str": "x", "none": None}


def scalar(q, policy, rng):
    """The rational q as a Python scalar of the representation class asked for.
    Only int / float and their subclasses (bool, numpy.float64) - the property's scalars."""
    n, d = q
    if policy == "mix":
        policy = rng.choice(("int", "float", "np", "bool"))
    if d != 1:
        return np.float64(n / d) if policy == "np" else float(n / d)
    if policy == "float":
        return float(n)
    if policy == "np":
        return np.float64(n)
    if policy == "bool" and n in (0, 1):
        return bool(n)
    return int(n)


def evaluate(e, leaves, policy, rng):
    """Evaluate the expression with the real operators, Python's own evaluation order."""
    t = e["t"]
    if t == "leaf":
        return leaves[e["n"]]
    if t == "num":
        return scalar(e["q"], policy, rng)
    if t == "bad":
        return BADS[e["k"]]
    if t == "neg":
        return -evaluate(e["a"], leaves, policy, rng)
    left = evaluate(e["l"], leaves, policy, rng)
    right = evaluate(e["r"], leaves, policy, rng)
    if t == "add":
        return left + right
    if t == "sub":
        return left - right
    if t == "mul":
        return left * right
    raise common.MachineryError("unknown node " + t)


def show(e):
    t = e["t"]
    if t == "leaf":
        return e["n"]
    if t == "num":
        n, d = e["q"]
        s = str(n) if d == 1 else "%d/%d" % (n, d)
        return "(%s)" % s if n < 0 else s
    if t == "bad":
        return {"str": "'x'", "none": "None"}[e["k"]]
    if t == "neg":
        return "-(%s)" % show(e["a"])
    return "(%s %s %s)" % (show(e["l"]), {"add": "+", "sub": "-", "mul": "*"}[t], show(e["r"]))


def size(e):
    return 1 + sum(size(e[k]) for k in ("a", "l", "r") if k in e)


def kind_of(e):
    """Coarse operand class used only to name violation keys (obs / num / bad)."""
    t = e["t"]
    if t == "leaf":
        return "obs"
    if t in ("num", "bad"):
        return t
    if t == "neg":
        return kind_of(e["a"])
    return "obs" if "obs" in (kind_of(e["l"]), kind_of(e["r"])) else "num"


def pattern(e):
    t = e["t"]
    if t in ("leaf", "num", "bad"):
        return t
    if t == "neg":
        return "neg-" + kind_of(e["a"])
    return "%s-%s-%s" % (kind_of(e["l"]), t, kind_of(e["r"]))


# ----------------------------------------------------------------------------- projections
def shape_of(obj, fx):
    """Projection of a real object onto the specification's value records."""
    from qucumber.observables.observable import SumObservable, ProdObservable, ObservableBase
    if isinstance(obj, ObservableBase):
        if type(obj) is SumObservable:
            return {"c": "Sum", "left": shape_of(obj.left, fx), "right": shape_of(obj.right, fx)}
        if type(obj) is ProdObservable:
            return {"c": "Prod", "left": shape_of(obj.left, fx), "right": shape_of(obj.right, fx)}
        if id(obj) in fx.ident:
            return {"c": "Leaf", "n": fx.ident[id(obj)]}
        return {"c": "UnknownObservable", "type": type(obj).__name__}
    if isinstance(obj, (int, float)):
        f = Fraction(obj)
        return {"c": "Num", "q": [f.numerator, f.denominator]}
    return {"c": "Other", "type": type(obj).__name__}


def _frac(q):
    return float(Fraction(q[0], q[1]))


def reference(rec, fx, names):
    """c0 + sum_L c_L * leaf_L(batch) and the magnitude scale, from the exported linear forms."""
    n = len(fx.batch)
    ref = np.full(n, _frac(rec["lin"][0]), dtype=np.float64)
    scale = np.full(n, _frac(rec["mag"][0]), dtype=np.float64)
    for i, name in enumerate(names):
        ref = ref + _frac(rec["lin"][i + 1]) * fx.vals[name]
        scale = scale + _frac(rec["mag"][i + 1]) * np.abs(fx.vals[name])
    return ref, scale


# ----------------------------------------------------------------------------- comparison
def check_record(chk, rec, fx, names, policy, rseed):
    """Replay one exported tree.  Returns a tag describing what was exercised."""
    e = rec["e"]
    pat = pattern(e)
    rng = random.Random(rseed)          # only used by the "mix" scalar policy
    ctx = dict(expr=show(e), policy=policy, rseed=rseed, fixture=fx.desc, record=rec)
    try:
        obj, exc = evaluate(e, fx.leaves, policy, rng), None
    except Exception as ex:             # noqa: BLE001 - the exception class is what is judged
        obj, exc = None, ex
    chk.evaluations += 1
    if rec["fault"] != "none":
        want = {"TypeError": TypeError, "ValueError": ValueError}[rec["fault"]]
        if exc is None:
            chk.violation("reject:accepted:" + pat, dict(ctx, got=repr(obj), expected=rec["fault"]))
        elif type(exc) is not want:
            chk.violation("reject:wrong-exception:" + pat, dict(ctx, got=type(exc).__name__ + ": " + str(exc),
                                                                 expected=rec["fault"]))
        return "rejected"
    if exc is not None:
        chk.violation("construct:raised:" + pat, dict(ctx, got=type(exc).__name__ + ": " + str(exc)))
        return "raised"
    if rec["kind"] == "bad":
        return "atom"
    got_shape = shape_of(obj, fx)
    if rec["kind"] == "num":
        # plain Python arithmetic: validates the rendering of scalars, not the library
        if got_shape != rec["build"]:
            raise common.MachineryError("python arithmetic disagrees with the specification: %s -> %r, expected %r"
                                        % (show(e), obj, rec["build"]))
        return "num"
    from qucumber.observables.observable import ObservableBase
    if not isinstance(obj, ObservableBase):
        chk.violation("construct:not-an-observable:" + pat, dict(ctx, got=repr(obj)))
        return "construct"
    drift = None
    if got_shape != rec["build"]:
        # The constructed object graph differs from Build(e).  Operand order inside a sum is a
        # symmetric alternative; anything else means the specification's model of the overloads
        # no longer describes the code.  Neither is by itself a breach of the property (which is
        # about values): the arithmetic is judged below, the drift is reported separately.
        drift = "order" if normal(got_shape) == normal(rec["build"]) else "structure"
        if not hasattr(chk, "drift"):
            chk.drift = []
        chk.drift.append(dict(ctx, kind=drift, got=got_shape))
    if rec["build"]["c"] == "Leaf" and drift is None:
        return "leaf"
    ref, scale = reference(rec, fx, names)
    tol = REL * scale + 1e-300
    try:
        out = obj.apply(fx.state, fx.batch.clone())
    except Exception as ex:             # noqa: BLE001
        chk.violation("apply:raised:" + pat, dict(ctx, got=type(ex).__name__ + ": " + str(ex), got_shape=got_shape))
        return "apply"
    if not isinstance(out, torch.Tensor) or tuple(out.shape) != (len(fx.batch),):
        chk.violation("apply:not-a-per-sample-vector:" + pat, dict(ctx, got=repr(out), got_shape=got_shape))
        return "apply"
    got = out.detach().numpy().astype(np.float64)
    if not np.all(np.abs(got - ref) <= tol):
        chk.violation("apply:" + pat, dict(ctx, got=got.tolist(), expected=ref.tolist(), lin=rec["lin"],
                                            got_shape=got_shape,
                                            leaf_values={k: v.tolist() for k, v in fx.vals.items()}))
        return "apply"
    try:
        stats = obj.statistics_from_samples(fx.state, fx.batch.clone())
    except Exception as ex:             # noqa: BLE001
        chk.violation("stats_from_samples:raised:" + pat, dict(ctx, got=type(ex).__name__ + ": " + str(ex)))
        return "stats"
    bad = stats_mismatch(stats, ref, scale)
    if bad:
        chk.violation("stats_from_samples:%s:%s" % (bad, pat), dict(ctx, got={k: float(v) for k, v in stats.items()},
                                                                     expected=expected_stats(ref)))
        return "stats"
    if drift:
        return "drift-" + drift
    return "ok" if float(np.ptp(ref)) > 0 else "ok-constant"


def normal(shape):
    """Shape modulo the order of the two operands of a sum."""
    if shape.get("c") == "Sum":
        kids = sorted((normal(shape["left"]), normal(shape["right"])), key=lambda x: json.dumps(x, sort_keys=True))
        return {"c": "Sum", "kids": kids}
    if shape.get("c") == "Prod":
        return {"c": "Prod", "left": normal(shape["left"]), "right": normal(shape["right"])}
    return shape


def expected_stats(ref):
    n = len(ref)
    var = float(np.var(ref, ddof=1)) if n > 1 else float("nan")
    return dict(mean=float(np.mean(ref)), variance=var, std_error=math.sqrt(var / n) if var == var else var,
                num_samples=n)


def stats_mismatch(stats, ref, scale, rel=REL):
    """mean / unbiased variance / standard error / count of the combined per-sample vector."""
    if set(stats) != {"mean", "variance", "std_error", "num_samples"}:
        return "keys"
    want = expected_stats(ref)
    smax = float(np.max(scale)) + 1e-300
    n = len(ref)
    if stats["num_samples"] != n:
        return "num_samples"
    if not abs(float(stats["mean"]) - want["mean"]) <= rel * smax:
        return "mean"
    if not abs(float(stats["variance"]) - want["variance"]) <= 4 * rel * smax * smax:
        return "variance"
    se = float(stats["std_error"])
    if not (se >= 0 and abs(se * se - want["variance"] / n) <= 4 * rel * smax * smax / n):
        return "std_error"
    return None


# ----------------------------------------------------------------------------- statistics() on a tiny chain
def check_statistics(chk, rec, fx, names, policy, rng, seed):
    """`statistics` of the composite on a short seeded chain: the chains drawn by the real sampler
    are observed (nn_state.sample wrapped on the instance, results cloned) and the reported
    mean / variance / count must be those of the combined per-sample values over all draws."""
    ctx = dict(expr=show(rec["e"]), policy=policy, fixture=fx.desc)
    try:
        obj = evaluate(rec["e"], fx.leaves, policy, rng)
    except Exception as ex:             # noqa: BLE001
        chk.violation("construct:raised:" + pattern(rec["e"]), dict(ctx, got=type(ex).__name__ + ": " + str(ex)))
        return 0
    chunks = []
    orig = fx.state.sample

    def spy(*a, **k):
        out = orig(*a, **k)
        chunks.append(out.clone())
        return out

    num_chains = rng.choice([2, 3, 4])
    num_samples = num_chains * rng.choice([1, 2, 3])
    fx.state.sample = spy
    try:
        torch.manual_seed(seed)
        stats = obj.statistics(fx.state, num_samples=num_samples, num_chains=num_chains, burn_in=2, steps=1)
    except Exception as ex:             # noqa: BLE001
        chk.violation("statistics:raised:" + pattern(rec["e"]), dict(ctx, got=type(ex).__name__ + ": " + str(ex)))
        return 0
    finally:
        del fx.state.sample
    chk.evaluations += 1
    refs, scales = [], []
    for ch in chunks:
        vals = {n: o.apply(fx.state, ch.clone()).detach().numpy().astype(np.float64) for n, o in fx.leaves.items()}
        r = np.full(len(ch), _frac(rec["lin"][0]))
        s = np.full(len(ch), _frac(rec["mag"][0]))
        for i, name in enumerate(names):
            r = r + _frac(rec["lin"][i + 1]) * vals[name]
            s = s + _frac(rec["mag"][i + 1]) * np.abs(vals[name])
        refs.append(r)
        scales.append(s)
    ref, scale = np.concatenate(refs), np.concatenate(scales)
    bad = stats_mismatch({k: stats[k] for k in stats}, ref, scale, rel=1e-9)
    if bad:
        chk.violation("statistics:%s:%s" % (bad, pattern(rec["e"])),
                      dict(expr=show(rec["e"]), policy=policy, fixture=fx.desc, num_chains=num_chains,
                           num_samples=num_samples, got={k: float(v) for k, v in stats.items()},
                           expected=expected_stats(ref)))
    return len(ref)
