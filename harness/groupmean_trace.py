"""code -> spec for spec/GroupMean.tla ("the mean of per-row terms, each row in its own basis, however the batch is
grouped"): the positive-phase gradient (C03), the NLL and the basis-averaged KL divergence (C10).  Every number in a
trace comes from a PUBLIC call: on one row, on the rows of one basis, on the whole batch; TraceGroupMean.tla does
the arithmetic in integers (1e-6 fixed point)."""
import copy
import json
import os
import shutil
import tempfile
import warnings

import numpy as np
import torch

import common
import tlc

common.import_qucumber()
from qucumber.nn_states import PositiveWaveFunction, ComplexWaveFunction, DensityMatrix  # noqa: E402
import qucumber.utils.training_statistics as ts  # noqa: E402

FX = 10 ** 6
SLACK = 3


def fx(x):
    return int(round(float(x) * FX))


def make_state(kind, nv, rng):
    torch.manual_seed(rng.randrange(2 ** 31))
    with warnings.catch_warnings():
        warnings.simplefilter("ignore")
        s = {"positive": PositiveWaveFunction, "complex": ComplexWaveFunction, "density": DensityMatrix}[kind](nv, gpu=False)
    g = torch.Generator().manual_seed(rng.randrange(2 ** 31))
    for net in s.networks:
        for name, p in getattr(s, net).named_parameters():
            if net == "rbm_ph" and name == "aux_bias":
                continue
            p.data.copy_((torch.rand(p.shape, generator=g, dtype=torch.double) - 0.5) * 1.6)
    return s


def batch(rng, nv, n, with_bases):
    samples = torch.tensor([[rng.randint(0, 1) for _ in range(nv)] for _ in range(n)], dtype=torch.double)
    if not with_bases:
        return samples, None, [1] * n
    pool = ["".join(rng.choice("XYZ") for _ in range(nv)) for _ in range(rng.randint(1, 3))] + ["Z" * nv]
    strs = [rng.choice(pool) for _ in range(n)]
    codes = {b: i + 1 for i, b in enumerate(sorted(set(strs)))}
    return samples, np.array([list(b) for b in strs]), [codes[b] for b in strs]


def line(kind, rows, groups, total, n):
    return dict(kind=kind, rows=rows, groups=groups, total=total, n=n, slack=SLACK)


def nll_trace(rng):
    kind = rng.choice(["positive", "complex", "density"])
    nv = rng.randint(2, 3)
    s = make_state(kind, nv, rng)
    space = s.generate_hilbert_space()
    n = rng.randint(3, 10)
    samples, bases, codes = batch(rng, nv, n, kind != "positive")
    kw = lambda idx: {} if bases is None else dict(sample_bases=bases[idx])  # noqa: E731
    rows = [[codes[i], fx(ts.NLL(s, samples[i:i + 1], space, **kw(slice(i, i + 1))))] for i in range(n)]
    groups = []
    for b in rng.sample(sorted(set(codes)), len(set(codes))):               # the groups in an order of the caller's choosing
        idx = [i for i in range(n) if codes[i] == b]
        groups.append([b, len(idx), fx(ts.NLL(s, samples[idx], space, **kw(idx)))])
    perm = list(range(n))
    rng.shuffle(perm)                                                       # the whole batch, rows in another order
    total = fx(ts.NLL(s, samples[perm], space, **kw(perm)))
    return line("nll:" + kind, rows, groups, total, n)


def kl_trace(rng):
    kind = rng.choice(["complex", "density"])
    nv = rng.randint(1, 2)
    s = make_state(kind, nv, rng)
    t = make_state(kind, nv, rng)
    space = s.generate_hilbert_space()
    target = t.psi(space) / t.normalization(space).sqrt() if kind == "complex" else t.rho(space, space) / t.normalization(space)
    pool = ["".join(rng.choice("XYZ") for _ in range(nv)) for _ in range(3)] + ["Z" * nv]
    lst = [rng.choice(pool) for _ in range(rng.randint(2, 5))]              # duplicates count twice: a mean over the LIST
    codes = {b: i + 1 for i, b in enumerate(sorted(set(lst)))}
    one = {b: fx(ts.KL(s, target, space=space, bases=[b])) for b in set(lst)}
    rows = [[codes[b], one[b]] for b in lst]
    groups = [[codes[b], lst.count(b), one[b]] for b in rng.sample(sorted(set(lst)), len(set(lst)))]
    total = fx(ts.KL(s, target, space=space, bases=list(lst)))
    return line("kl:" + kind, rows, groups, total, len(lst))


def grad_traces(rng):
    """one trace per gradient component (first components of every network)"""
    kind = rng.choice(["positive", "complex", "density"])
    nv = rng.randint(2, 3)
    s = make_state(kind, nv, rng)
    n = rng.randint(3, 8)
    samples, bases, codes = batch(rng, nv, n, kind != "positive")
    g = lambda smp, b: s.gradient(smp) if bases is None else s.gradient(smp, bases=b)  # noqa: E731
    per_row = [g(samples[i], None if bases is None else bases[i]) for i in range(n)]
    order = rng.sample(sorted(set(codes)), len(set(codes)))
    per_group = {}
    for b in order:
        idx = [i for i in range(n) if codes[i] == b]
        per_group[b] = (len(idx), g(samples[idx], None if bases is None else bases[idx]))     # gradient() returns the SUM
    perm = list(range(n))
    rng.shuffle(perm)
    tot = s.positive_phase_gradients(samples[perm]) if bases is None else s.positive_phase_gradients(samples[perm], bases_batch=bases[perm])
    out = []
    for net in range(len(per_row[0])):
        for q in range(min(4, per_row[0][net].numel())):
            rows = [[codes[i], fx(per_row[i][net][q])] for i in range(n)]
            groups = [[b, per_group[b][0], fx(per_group[b][1][net][q] / per_group[b][0])] for b in order]
            out.append(line("grad:%s:net%d:%d" % (kind, net, q), rows, groups, fx(tot[net][q]), n))
    return out


def validate(lines, timeout=600):
    d = tempfile.mkdtemp(prefix="verif-gmean-")
    try:
        path = os.path.join(d, "traces.ndjson")
        with open(path, "w") as fh:
            for ln in lines:
                fh.write(json.dumps(ln) + "\n")
        res = tlc.run("TraceGroupMean", constants={"MaxRows": 1, "NBases": 8}, defs={"Terms": "{0}"},
                      init="TInit", next="TNext", constraints=["Track"], postcondition="Verdicts",
                      invariants=["GroupedIsSum"], workers=1, timeout=timeout, env={"TRACE_FILE": path})
    finally:
        shutil.rmtree(d, ignore_errors=True)
    verdict = {e["tid"]: e for e in res.exports if isinstance(e, dict) and "tid" in e}
    acc = []
    for i in range(1, len(lines) + 1):
        v = verdict.get(i)
        if v is None:
            raise common.MachineryError("no verdict for group-mean trace %d\n%s" % (i, res.raw[-2000:]))
        acc.append((v["matched"] == v["need"], v["matched"]))
    return res, acc


def phase(chk, tier, rng, what):
    """what: subset of {"nll", "kl", "grad"}"""
    res = tlc.run("GroupMean", constants={"MaxRows": 4, "NBases": 3}, defs={"Terms": "{-2, 0, 1, 5}"},
                  invariants=["GroupedIsSum", "EveryRowOnce"], workers=8, timeout=600)
    chk.add_tlc(res, "GroupMean.tla (every batch of <= 4 rows over 3 bases, every order of the groups)")
    if res.violation:
        chk.violation("spec:GroupMean:" + str(res.violation), dict(tlc=res.raw[-3000:]))
        return
    lines = []
    reps = 12 if tier == "quick" else 150
    with warnings.catch_warnings():
        warnings.simplefilter("ignore")
        for _ in range(reps):
            try:
                if "nll" in what:
                    lines.append(nll_trace(rng))
                if "kl" in what:
                    lines.append(kl_trace(rng))
                if "grad" in what:
                    lines += grad_traces(rng)
            except Exception as ex:          # a public call on a legal sub-batch failed
                chk.violation("trace:groupmean:exception:" + type(ex).__name__, dict(error=repr(ex)[:400]))
    if not lines:
        return
    donor = next((l for l in lines if len(l["groups"]) >= 2 and l["n"] >= 3), lines[0])
    c1 = copy.deepcopy(donor)
    c1["total"] += 50 * c1["n"]                                   # a batch value that is not the mean of the rows' terms
    c2 = copy.deepcopy(donor)
    c2["groups"][0][1] += 1                                       # a group that is not exactly the rows of its basis
    c3 = copy.deepcopy(donor)
    c3["total"] = int(round(sum(g[2] for g in c3["groups"]) / len(c3["groups"]))) + 40     # mean of group means (divisor = number of groups)
    ctl = [("group-mean trace with a shifted batch value accepted", c1), ("group-mean trace with a miscounted group accepted", c2)]
    if len({g[1] for g in donor["groups"]}) > 1:
        ctl.append(("group-mean trace averaging the groups instead of the rows accepted", c3))
    tres, acc = validate(lines + [c[1] for c in ctl])
    chk.add_tlc(tres, "TraceGroupMean.tla (%d quantities)" % len(lines))
    if tres.violation:
        chk.violation("trace:groupmean:invariant:" + str(tres.violation), dict(tlc=tres.raw[-3000:]))
    for j, (name, _) in enumerate(ctl):
        chk.control(not acc[len(lines) + j][0], name)
    for i, (ok, matched) in enumerate(acc[:len(lines)]):
        if ok:
            chk.traces += 1
            chk.nontriv(("groupmean", lines[i]["kind"], len(lines[i]["groups"])))
        else:
            ln = lines[i]
            chk.violation("trace:groupmean:rejected:%s:%s" % (ln["kind"].split(":")[0], "group" if matched < len(ln["groups"]) else "total"),
                          dict(quantity=ln["kind"], matched_prefix=matched, rows=ln["rows"], groups=ln["groups"], total=ln["total"], n=ln["n"]))
