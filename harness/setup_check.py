"""setup_cmd: parse every spec module with SANY and smoke-test the imports."""
import sys
import tlc
import common


def main():
    bad = tlc.sany_all()
    for f, out in bad:
        print("SANY failed on", f)
        print(out)
    q = common.import_qucumber()
    import torch, mpmath  # noqa
    print("qucumber", q.__version__, "from", common.REPO, "torch", torch.__version__)
    return 1 if bad else 0
