"""Child of check_c14: one seeded session in a fresh interpreter; prints digests of its results.
Started several times with different PYTHONHASHSEED values (the interpreter's own per-process random
source): after qucumber.set_random_seed the results must not depend on it."""
import hashlib
import sys

import numpy as np
import torch

sys.path.insert(0, __file__.rsplit("/", 1)[0])
import common  # noqa: E402

qucumber = common.import_qucumber()
from qucumber.nn_states import PositiveWaveFunction, ComplexWaveFunction, DensityMatrix  # noqa: E402
from qucumber.observables import SigmaZ, SigmaX, NeighbourInteraction, System  # noqa: E402


def dig(*xs):
    h = hashlib.sha1()
    for x in xs:
        if isinstance(x, dict):
            x = [x[k] for k in sorted(x)] if all(not isinstance(v, dict) for v in x.values()) else \
                [v2 for k in sorted(x) for v2 in (x[k][kk] for kk in sorted(x[k]))]
        if isinstance(x, (list, tuple)):
            for y in x:
                h.update(dig(y).encode())
            continue
        if torch.is_tensor(x):
            h.update(x.detach().cpu().numpy().tobytes())
        else:
            h.update(np.asarray(x, dtype=np.float64).tobytes())
    return h.hexdigest()[:16]


def main(seed):
    torch.set_num_threads(1)
    out = []
    rows = [[0, 1, 1], [1, 0, 1], [1, 1, 0], [0, 0, 0], [1, 0, 0], [0, 1, 0], [1, 1, 1], [0, 0, 1]]
    bases = np.array([list(b) for b in ["ZZZ", "XZY", "YYX", "ZXZ", "ZZZ", "XXX", "YZZ", "ZZX"]])
    data = torch.tensor(rows, dtype=torch.double)
    for cls, args in ((PositiveWaveFunction, (3, 2)), (ComplexWaveFunction, (3, 2)), (DensityMatrix, (3, 2, 2))):
        qucumber.set_random_seed(seed, cpu=True, gpu=False, quiet=True)
        st = cls(*args, gpu=False)
        kw = {} if cls is PositiveWaveFunction else dict(input_bases=bases)
        if cls is not PositiveWaveFunction:
            g = st.gradient(data, bases=bases)
            out.append(("gradient", cls.__name__, dig(g[0], g[1])))
            p = st.positive_phase_gradients(data, bases_batch=bases)
            out.append(("positive_phase_gradients", cls.__name__, dig(p[0], p[1])))
        s = st.sample(k=3, num_samples=6)
        out.append(("sample", cls.__name__, dig(s)))
        r = System(SigmaZ(), SigmaX(), NeighbourInteraction(c=1)).statistics(st, 12, num_chains=4, burn_in=2, steps=1)
        out.append(("statistics", cls.__name__, dig(r)))
        st.fit(data, epochs=2, pos_batch_size=4, neg_batch_size=3, k=1, lr=0.1, **kw)
        out.append(("fit", cls.__name__, dig([p for net in st.networks for p in getattr(st, net).parameters()])))
    for o in out:
        print("RESULT", *o)


if __name__ == "__main__":
    main(int(sys.argv[1]))
