"""Drive the real NeuralStateBase.fit under observation and project what happens
onto the event vocabulary of spec/Train.tla.

Observation only: recording callbacks, a recording optimizer / scheduler passed
through the public `optimizer=` / `scheduler=` arguments, and wrappers installed
on the instance or on module attributes inside a context manager that restores
them in `finally`.  Nothing alters arguments or results.
"""
import contextlib
import io
import os
import re
import tempfile

import numpy as np
import torch

import common

qucumber = common.import_qucumber()
from qucumber.nn_states import PositiveWaveFunction, ComplexWaveFunction, DensityMatrix  # noqa: E402
from qucumber.callbacks import (CallbackBase, MetricEvaluator, ObservableEvaluator, ModelSaver,  # noqa: E402
                                Logger, EarlyStopping)
import qucumber.nn_states.neural_state as ns_mod  # noqa: E402
from qucumber.observables import SigmaZ  # noqa: E402


_ORIG_TORCH_SAVE = torch.save


def nv_for(cfg):
    m = max(cfg["data"]) if cfg["data"] else 1
    nv = max(2, int(m).bit_length())
    if cfg.get("bases"):
        mb = max(cfg["bases"])
        d = 1
        while 3 ** d <= mb:
            d += 1
        nv = max(nv, d)
    return nv


def row_bits(code, nv):
    return [(code >> (nv - 1 - s)) & 1 for s in range(nv)]


def row_code(bits):
    c = 0
    for x in bits:
        c = 2 * c + int(round(float(x)))
    return c


def basis_str(code, nv):
    ds = []
    for _ in range(nv):
        ds.append("ZXY"[code % 3])
        code //= 3
    return ds[::-1]


def basis_code(row):
    c = 0
    for ch in row:
        c = 3 * c + "ZXY".index(ch)
    return c


def make_state(typ, nv, nh=2, na=2):
    if typ == "positive":
        return PositiveWaveFunction(nv, nh, gpu=False)
    if typ == "complex":
        return ComplexWaveFunction(nv, nh, gpu=False)
    return DensityMatrix(nv, nh, na, gpu=False)


def fx(v):
    """real tensor -> list of 1e-6 fixed-point integers"""
    return [int(round(float(x) * 1e6)) for x in v.detach().reshape(-1).tolist()]


def param_hash(nn_state):
    h = []
    for net in nn_state.networks:
        for name, p in getattr(nn_state, net).named_parameters():
            h.append(common.sha(p.detach().cpu().numpy().tobytes()))
    return common.sha("".join(h).encode())


class Recorder:
    def __init__(self):
        self.hist = []
        self.opt_steps = 0
        self.sched_steps = 0
        self.cur_ep = None
        self.hash_at = []      # (event index, param hash) at every recorded callback event
        self.numeric = []      # per batch numeric payloads (C06)


class UserAbort(Exception):
    """What a user's own callback raises in the runs that model an aborted fit() (Train.tla, again = "abort")."""


class Rec(CallbackBase):
    """User callback: records every event it receives, requests a stop where told and raises where told."""

    def __init__(self, R, idx, plan, nn_hash=True):
        self.R, self.idx, self.plan, self.nn_hash = R, idx, plan, nn_hash

    def _ev(self, nn_state, k, ep, b):
        # a request made while a stop is already in force is a no-op and is not an injection
        injected = (k, ep, b, self.idx) in self.plan and not nn_state.stop_training
        self.R.hist.append(dict(k=k, ep=ep, b=b, cb=self.idx, stop=bool(nn_state.stop_training),
                                pv=self.R.opt_steps, inj=injected))
        if self.nn_hash:
            self.R.hash_at.append((len(self.R.hist) - 1, param_hash(nn_state)))
        if k == "EE":
            self.R.cur_ep = ep
        side = getattr(self.R, "interleave", None)
        if side is not None and self.idx == min(r.idx for r in self.R.recs):
            self.R.in_side = True       # (what the other model's training does is not an event of THIS run)
            try:
                side(k, ep, b)          # the user's callback does something else with the library in between
            finally:
                self.R.in_side = False
        if injected:
            nn_state.stop_training = True
        if ("RZ", k, ep, b, self.idx) in self.plan:
            self.R.hist.append(dict(k="RZ", kk=k, ep=ep, b=b, cb=self.idx))
            raise UserAbort("%s %s %s" % (k, ep, b))

    def on_train_start(self, nn_state):
        self._ev(nn_state, "TS", -1, -1)

    def on_train_end(self, nn_state):
        self._ev(nn_state, "TE", -1, -1)

    def on_epoch_start(self, nn_state, epoch):
        self._ev(nn_state, "ES", epoch, -1)

    def on_epoch_end(self, nn_state, epoch):
        self.R.cur_ep = epoch
        self._ev(nn_state, "EE", epoch, -1)

    def on_batch_start(self, nn_state, epoch, batch):
        self._ev(nn_state, "BS", epoch, batch)

    def on_batch_end(self, nn_state, epoch, batch):
        self._ev(nn_state, "BE", epoch, batch)


# the documented parameter orders (docstrings of the classes / of fit)
LAMBDA_ORDER = ["on_train_start", "on_train_end", "on_epoch_start", "on_epoch_end", "on_batch_start", "on_batch_end"]
EVAL_ORDER = ["period", "metrics", "verbose", "log"]
OBSEVAL_ORDER = ["period", "observables", "verbose", "log"]
SAVER_ORDER = ["period", "folder_path", "file_name", "save_initial", "metadata", "metadata_only"]
LOGGER_ORDER = ["period", "logger_fn", "msg_gen"]
EARLY_ORDER = ["period", "tolerance", "patience", "evaluator_callback", "quantity_name", "criterion"]
VEARLY_ORDER = ["period", "tolerance", "patience", "evaluator_callback", "quantity_name", "variance_name"]
FIT_ORDER = ["epochs", "pos_batch_size", "neg_batch_size", "k", "lr"]


def as_lambda(rec):
    """The same recording callback, built with the library's LambdaCallback (hooks installed as
    instance attributes) instead of subclassing CallbackBase."""
    from qucumber.callbacks import LambdaCallback
    return common.api_call(LambdaCallback, LAMBDA_ORDER,
                           dict(on_train_start=lambda nn: rec.on_train_start(nn),
                                on_train_end=lambda nn: rec.on_train_end(nn),
                                on_epoch_start=lambda nn, ep: rec.on_epoch_start(nn, ep),
                                on_epoch_end=lambda nn, ep: rec.on_epoch_end(nn, ep),
                                on_batch_start=lambda nn, ep, b: rec.on_batch_start(nn, ep, b),
                                on_batch_end=lambda nn, ep, b: rec.on_batch_end(nn, ep, b)))


class EpochTracker(CallbackBase):
    """Placed first in the list so scripted metrics know the current epoch; records nothing."""

    def __init__(self, R):
        self.R = R

    def on_epoch_end(self, nn_state, epoch):
        self.R.cur_ep = epoch


def make_optimizer(R, base=torch.optim.SGD):
    class RecOpt(base):
        def zero_grad(self, *a, **k):
            R.hist.append(dict(k="ZG", ep=R.ep, b=R.b))
            return super().zero_grad(*a, **k)

        def step(self, *a, **k):
            if R.on_pre_step:
                R.on_pre_step(self)
            r = super().step(*a, **k)
            R.opt_steps += 1
            R.hist.append(dict(k="OS", ep=R.ep, b=R.b, pv=R.opt_steps))
            if R.on_post_step:
                R.on_post_step(self)
            return r
    return RecOpt


def make_scheduler(R, base=torch.optim.lr_scheduler.StepLR):
    class RecSched(base):
        def __init__(self, *a, **k):
            self._constructing = True
            super().__init__(*a, **k)
            self._constructing = False

        def step(self, *a, **k):
            r = super().step(*a, **k)
            if not getattr(self, "_constructing", False):   # LRScheduler.__init__ calls step() once
                R.sched_steps += 1
                R.hist.append(dict(k="SC", ep=R.ep, n=R.sched_steps))
                R.lr_after.append(self.optimizer.param_groups[0]["lr"])
            return r
    return RecSched


@contextlib.contextmanager
def observe(nn_state, R, numeric=False, force=None):
    """Install observing wrappers; restore everything on exit.  `force` (replay of
    spec behaviours only) drives the environment's random draws: a list of
    (perm, neg) pairs, one per epoch, returned by randperm / randint."""
    force = list(force) if force else None
    R.ep, R.b = -1, -1
    R.on_pre_step = None
    R.on_post_step = None
    R.lr_after = []
    orig_randperm, orig_randint = torch.randperm, torch.randint
    orig_v2g = ns_mod.vector_to_grads
    inst_attrs = {}
    draw = {}

    def randperm(*a, **k):
        r = orig_randperm(*a, **k)
        if draw.get("active") and draw.get("forced") is not None:
            r = torch.tensor([x - 1 for x in draw["forced"][0]], dtype=torch.long)
        if draw.get("active"):
            draw.setdefault("perm", []).append([int(x) + 1 for x in r])
        return r

    def randint(*a, **k):
        r = orig_randint(*a, **k)
        if draw.get("active") and draw.get("forced") is not None:
            r = torch.tensor([x - 1 for x in draw["forced"][1]], dtype=torch.long)
        if draw.get("active"):
            draw.setdefault("neg", []).append([int(x) + 1 for x in r])
        return r

    cls_shuffle = type(nn_state)._shuffle_data

    def shuffle(*a, **k):
        draw.clear()
        draw["active"] = True
        if force:
            draw["forced"] = force.pop(0)
        # (an epoch the behaviour does not have - the run went on where the specification stops - draws freely; the
        # comparison of the event lists reports it)
        try:
            it = cls_shuffle(nn_state, *a, **k)
        finally:
            draw["active"] = False
        perms, negs = draw.get("perm", []), draw.get("neg", [])
        R.epoch_counter = getattr(R, "epoch_counter", R.start_ep - 1) + 1
        R.ep = R.epoch_counter
        ev = dict(k="SH", ep=R.ep, perm=perms[0] if perms else [], neg=negs[0] if negs else [])
        if len(perms) != 1 or len(negs) > 1:
            # more (or fewer) draws than the single randperm (+ single randint) of the specification:
            # the extra field makes the event differ from every specification event
            ev["draws"] = [len(perms), len(negs)]
        R.hist.append(ev)
        return it

    cls_cbg = type(nn_state).compute_batch_gradients

    def cbg(k, samples_batch, neg_batch, bases_batch=None, *a, **kw):
        # batch index = number of CG events already seen in this epoch
        R.b = sum(1 for e in R.hist if e["k"] == "CG" and e["ep"] == R.ep)
        ev = dict(k="CG", ep=R.ep, b=R.b,
                  pos=[row_code(r) for r in samples_batch.tolist()],
                  bas=[basis_code(r) for r in bases_batch] if bases_batch is not None else [],
                  neg=[row_code(r) for r in neg_batch.tolist()])
        R.hist.append(ev)
        if numeric:
            if bases_batch is None:
                pos = nn_state.positive_phase_gradients(samples_batch)
            else:
                pos = nn_state.positive_phase_gradients(samples_batch, bases_batch)
            num = dict(posAm=fx(pos[0]), posPh=fx(pos[1]) if len(pos) > 1 and torch.is_tensor(pos[1]) else [],
                       nb=int(neg_batch.shape[0]))
            gcap.clear()
        if bases_batch is None:
            g = cls_cbg(nn_state, k, samples_batch, neg_batch, *a, **kw)
        else:
            g = cls_cbg(nn_state, k, samples_batch, neg_batch, bases_batch, *a, **kw)
        if numeric:
            num["gradAm"] = fx(g[0])
            num["gradPh"] = fx(g[1]) if len(g) > 1 and torch.is_tensor(g[1]) else []
            if len(gcap) != 1:
                num["gibbs_calls"] = len(gcap)          # not exactly one chain run: no spec counterpart
                num["k"], num["ginit"], num["negSum"] = -1, [], []
            else:
                gk, ginit, vk = gcap[0]
                num["k"] = int(gk)
                num["ginit"] = [row_code(r) for r in ginit.tolist()]
                num["negSum"] = fx(nn_state.rbm_am.effective_energy_gradient(vk))
            num["assigned"] = []
            R.numeric.append(num)
        return g

    def v2g(vec, parameters):
        ps = list(parameters)
        if getattr(R, "in_side", False):
            return orig_v2g(vec, iter(ps))
        which = 0
        for i, net in enumerate(nn_state.networks):
            first = next(iter(getattr(nn_state, net).parameters()))
            if ps and ps[0] is first:
                which = i + 1
        R.hist.append(dict(k="AS", ep=R.ep, b=R.b, net=which))
        if numeric and R.numeric:
            R.numeric[-1]["assigned"].append(fx(vec))
        return orig_v2g(vec, iter(ps))

    gcap = []
    rbm = nn_state.rbm_am
    orig_gibbs = type(rbm).gibbs_steps

    def gibbs(k, initial_state, overwrite=False):
        init_copy = initial_state.clone()
        out = orig_gibbs(rbm, k, initial_state, overwrite=overwrite)
        gcap.append((k, init_copy, out.clone()))
        return out

    LAYOUT = (("weights", "visible_bias", "hidden_bias"), ("weights_W", "weights_U", "visible_bias", "hidden_bias", "aux_bias"))

    def in_layout_order(rbm_):
        """the parameters BY NAME in the order of the flat gradient vector (spec/LayoutDefs.tla) - not in whatever
        order the module currently enumerates them"""
        for names in LAYOUT:
            if all(hasattr(rbm_, n) for n in names) and len(list(rbm_.parameters())) == len(names):
                return [getattr(rbm_, n) for n in names]
        return list(rbm_.parameters())

    def pre_step(opt):
        x = R.numeric[-1]
        x["lr"] = int(round(opt.param_groups[0]["lr"] * 1e6))
        x["_lr"] = opt.param_groups[0]["lr"]
        x["shapes"], x["pgrad"], x["_before"] = [], [], []
        for net in nn_state.networks:
            ps = in_layout_order(getattr(nn_state, net))
            x["shapes"].append([int(p.numel()) for p in ps])
            x["pgrad"].append([fx(p.grad) if p.grad is not None else [] for p in ps])
            x["_before"].append([p.detach().clone() for p in ps])

    def post_step(opt):
        x = R.numeric[-1]
        x["dlr"] = []
        for net, before in zip(nn_state.networks, x.pop("_before")):
            ps = in_layout_order(getattr(nn_state, net))
            x["dlr"].append([fx((b0 - p.detach()) / x["_lr"]) for b0, p in zip(before, ps)])
        x.pop("_lr")

    try:
        if numeric:
            object.__setattr__(rbm, "gibbs_steps", gibbs)
            R.on_pre_step, R.on_post_step = pre_step, post_step
        torch.randperm, torch.randint = randperm, randint
        ns_mod.vector_to_grads = v2g
        for name, fn in (("_shuffle_data", shuffle), ("compute_batch_gradients", cbg)):
            inst_attrs[name] = nn_state.__dict__.get(name, None)
            nn_state.__dict__[name] = fn
        yield
    finally:
        if numeric:
            rbm.__dict__.pop("gibbs_steps", None)
        torch.randperm, torch.randint = orig_randperm, orig_randint
        ns_mod.vector_to_grads = orig_v2g
        for name, old in inst_attrs.items():
            if old is None:
                nn_state.__dict__.pop(name, None)
            else:
                nn_state.__dict__[name] = old


def has_second(cfg, i):
    """does the i-th (1-based) callback, a MetricEvaluator, carry the second metric "a"?"""
    d = cfg["cbs"][i - 1]
    return d["t"] == "eval" and d.get("kind", "metric") == "metric" and (i + len(cfg["cbs"]) + cfg["epochs"]) % 2 == 0


def second_value(ep):
    return -1000.5 - ep


def second_name(cfg, i):
    """the name the user gave the second metric: any string is a name - also one that the evaluator object happens
    to use for an attribute of its own ("last", "period", "epochs"); records are looked up by subscript / get_value"""
    return ("a", "last", "a", "period", "epochs")[(i + cfg["epochs"] + cfg.get("startEp", 0)) % 5]


def build_callbacks(cfg, R, plan, nn_state, tmpdir):
    """cfg['cbs'] descriptors -> real callback objects (list order preserved)."""
    objs = [None] * len(cfg["cbs"])
    order = [i for i, d in enumerate(cfg["cbs"], start=1) if d["t"] != "early"] + \
            [i for i, d in enumerate(cfg["cbs"], start=1) if d["t"] == "early"]

    class _Slot:
        def __init__(self, i):
            self.i = i

        def append(self, o):
            objs[self.i - 1] = o

    for i in order:
        d = cfg["cbs"][i - 1]
        t = d["t"]
        slot = _Slot(i)
        if t == "rec":
            r = Rec(R, i, plan)
            R.recs.append(r)
            # both ways of writing a user callback: a CallbackBase subclass or a LambdaCallback
            slot.append(as_lambda(r) if d.get("lam", (i + R.lam_parity) % 2 == 0) else r)
        elif t == "eval":
            kind = d.get("kind", "metric")
            if kind == "metric":
                def metric(nn, _i=i, _d=d, **kw):
                    R.hist.append(dict(k="EV", cb=_i, ep=R.cur_ep))
                    if ("RZ", "EE", R.cur_ep, -1, _i) in R.plan:     # the user's metric function raises
                        R.hist.append(dict(k="RZ", kk="EE", ep=R.cur_ep, b=-1, cb=_i))
                        raise UserAbort("metric at epoch %s" % R.cur_ep)
                    v = cfg["vals"][R.cur_ep] * cfg.get("scale", 1.0)
                    vk = _d.get("vkind") or ("np" if _d.get("np") else "float")
                    if vk == "tensor0d":
                        return torch.tensor(float(v), dtype=torch.double)        # what a user metric may well return
                    if vk == "ndarray0d":
                        return np.array(float(v))
                    return np.float64(v) if vk == "np" else float(v)
                metrics = {"m": metric}
                if has_second(cfg, i):
                    # a second metric registered AFTER "m" whose name sorts BEFORE it, with unmistakable values
                    metrics[second_name(cfg, i)] = lambda nn, **kw: second_value(R.cur_ep)
                slot.append(common.api_call(MetricEvaluator, EVAL_ORDER,
                                            dict(period=d["period"], metrics=metrics, verbose=bool(d.get("verbose")),
                                                 log=os.path.join(tmpdir, "eval%d.csv" % i) if d.get("log") else None,
                                                 extra_kw=1), defaults=dict(verbose=False, log=None)))
            else:
                ev = common.api_call(ObservableEvaluator, OBSEVAL_ORDER,
                                     dict(period=d["period"], observables=[SigmaZ()], verbose=bool(d.get("verbose")),
                                          log=os.path.join(tmpdir, "eval%d.csv" % i) if d.get("log") else None,
                                          num_samples=4), defaults=dict(verbose=False, log=None))

                def stats(nn, _i=i, **kw):
                    R.hist.append(dict(k="EV", cb=_i, ep=R.cur_ep))
                    if ("RZ", "EE", R.cur_ep, -1, _i) in R.plan:     # sampling behind the observables raises
                        R.hist.append(dict(k="RZ", kk="EE", ep=R.cur_ep, b=-1, cb=_i))
                        raise UserAbort("statistics at epoch %s" % R.cur_ep)
                    v, var = cfg["vals"][R.cur_ep] * cfg.get("scale", 1.0), cfg["vars"][R.cur_ep] * cfg.get("scale", 1.0) ** 2
                    return {"SigmaZ": {"mean": float(v), "variance": float(var),
                                       "std_error": float(var) ** 0.5 / 2.0, "num_samples": 4}}
                ev.system.statistics = stats
                slot.append(ev)
        elif t == "saver":
            md = d.get("meta", "none")
            if md == "dict":
                meta = {"note": "n%d" % i, "k": 7}
            elif md == "callable":
                meta = (lambda nn, ep, _i=i: {"epoch_meta": ep, "tag": "t%d" % _i})
            else:
                meta = None
            # "a format string with one blank": the blank in every spelling the format mini-language has for it
            # (a numeric format spec cannot take the word "initial")
            forms = ["m{}.pt", "m{0}.pt", "m{!s}.pt"] + ([] if d["initial"] else ["m{:03d}.pt", "m{:d}.pt"])
            R.fname_rot = getattr(R, "fname_rot", 0) + 1
            fmt = forms[(R.fname_rot + R.lam_parity) % len(forms)]
            R.fnames = getattr(R, "fnames", {})
            R.fnames[i] = fmt
            slot.append(common.api_call(ModelSaver, SAVER_ORDER,
                                        dict(period=d["period"], folder_path=os.path.join(tmpdir, "sv%d" % i), file_name=fmt,
                                             save_initial=bool(d["initial"]), metadata=meta,
                                             metadata_only=bool(d.get("metaonly"))),
                                        defaults=dict(save_initial=True, metadata=None, metadata_only=False)))
        elif t == "logger":
            def logfn(msg, _i=i):
                m = re.match(r"Epoch (-?\d+):", msg)
                R.hist.append(dict(k="LG", cb=_i, ep=int(m.group(1)) if m else None))
                R.loglines.append(msg)
                R.logged.setdefault(_i, []).append(int(m.group(1)) if m else None)
            slot.append(common.api_call(Logger, LOGGER_ORDER, dict(period=d["period"], logger_fn=logfn)))
        elif t == "early":
            evcb = objs[d["ev"] - 1]
            tol = float("inf") if d["tolD"] == 0 else d["tolN"] / d["tolD"]
            if d["crit"] == "absolute":
                # the documented rule is homogeneous: monitored values scaled by a power of two (exact in binary
                # floating point) and, for the absolute criterion, the tolerance with them, decide identically
                tol *= abs(cfg.get("scale", 1.0))
            name = "m" if isinstance(evcb, MetricEvaluator) else "SigmaZ"
            if d.get("deprecated"):
                import warnings
                from qucumber.callbacks import VarianceBasedEarlyStopping
                with warnings.catch_warnings():
                    warnings.simplefilter("ignore")
                    slot.append(common.api_call(VarianceBasedEarlyStopping, VEARLY_ORDER,
                                                dict(period=d["period"], tolerance=tol, patience=d["patience"],
                                                     evaluator_callback=evcb, quantity_name=name)))
            else:
                slot.append(common.api_call(EarlyStopping, EARLY_ORDER,
                                            dict(period=d["period"], tolerance=tol, patience=d["patience"],
                                                 evaluator_callback=evcb, quantity_name=name, criterion=d["crit"]),
                                            defaults=dict(criterion="relative")))
        else:
            raise common.MachineryError("unknown callback descriptor %r" % (d,))
    return objs


_CB_FORM = [0]
_SCHED_FORM = [0]


def _callbacks_arg(cbs):
    """The `callbacks` argument in the forms a caller may use: the documented list, a tuple, a CallbackList, and
    one-shot iterables (fit() builds CallbackList(callbacks), which copies any iterable once)."""
    from qucumber.callbacks import CallbackList
    _CB_FORM[0] += 1
    form = _CB_FORM[0] % 6
    if form == 1:
        return tuple(cbs)
    if form == 2:
        return CallbackList(list(cbs))
    if form == 3:
        return iter(list(cbs))
    if form == 4:
        return (c for c in list(cbs))
    return cbs


def real_run(cfg, plan=(), seed=0, k=1, lr=0.05, numeric_hook=None, time_flag=False,
             nn_state=None, container="tensor", opt_base=torch.optim.SGD, tmpdir=None,
             sched_args=None, force=None, prev=None, metric_names=("m",), opt_args=None, sched_base=None,
             interleave=None):
    """Run the real fit for configuration `cfg` (a dict shaped like Train.tla's cfg
    records; `vals`/`vars` indexed by epoch).  plan = set of (k, ep, b, cb) where
    recording callback cb requests a stop.  Returns the observed projection."""
    torch.manual_seed(seed)
    nv = nv_for(cfg) if nn_state is None else int(nn_state.num_visible)
    if prev is not None:
        # a second fit() on the same model and the same callback objects
        nn_state = prev["nn_state"]
        R = prev["R"]
        R.hist, R.hash_at, R.numeric = [], [], []
        R.sched_steps = 0
        R.epoch_counter = cfg["startEp"] - 1
        tmpdir = prev["tmpdir"]
    else:
        if nn_state is None:
            nn_state = make_state(cfg["type"], nv)
        R = Recorder()
        R.loglines = []
        R.logged = {}
        R.saved = {}
        R.recs = []
        R.lam_parity = seed % 2
    R.start_ep = cfg["startEp"]
    R.interleave = interleave
    R.numeric_hook = numeric_hook
    data_rows = [row_bits(c, nv) for c in cfg["data"]]
    if container == "tensor":
        data = torch.tensor(data_rows, dtype=torch.double)
    elif container == "tensor_strided":                       # column-major storage: same values, other strides
        data = torch.tensor(data_rows, dtype=torch.double).t().contiguous().t()
    elif container == "numpy":
        data = np.array(data_rows, dtype=float)
    elif container == "numpy_fortran":
        data = np.asfortranarray(np.array(data_rows, dtype=float))
    else:
        data = [list(map(float, r)) for r in data_rows]
    data_before = repr(data_rows)
    bases = None
    if cfg.get("bases"):
        bases = np.array([basis_str(c, nv) for c in cfg["bases"]])
        if container in ("numpy_fortran", "tensor_strided"):
            bases = np.asfortranarray(bases)
        bases_before = bases.copy()
    own_tmp = None
    if tmpdir is None:
        own_tmp = tempfile.TemporaryDirectory(prefix="verif-train-")
        tmpdir = own_tmp.name
    try:
        R.plan = set(plan)          # read by the scripted metrics (which of them raises, and when)
        if prev is not None:
            cbs = prev["objs"]
            for o in R.recs:
                o.plan = set(plan)
        else:
            cbs = build_callbacks(cfg, R, set(plan), nn_state, tmpdir)
        saves = []
        cls_save = type(nn_state).save

        in_save = []

        def note_save(location, metadata, only):
            m = re.search(r"m(initial|-?\d+)\.pt$", str(location))
            name = -1 if (m and m.group(1) == "initial") else (int(m.group(1)) if m else None)
            cbi = int(re.search(r"[/\\]sv(\d+)[/\\]m[^/\\]*$", str(location)).group(1))
            R.hist.append(dict(k="SV", cb=cbi, name=name, pv=R.opt_steps))
            saves.append(dict(cb=cbi, name=name, path=str(location), hash=param_hash(nn_state),
                              meta=metadata, pv=R.opt_steps, only=only))
            R.saved.setdefault(cbi, []).append(name)

        def save(location, metadata=None):
            note_save(location, metadata, False)
            in_save.append(1)
            try:
                return cls_save(nn_state, location, metadata)
            finally:
                in_save.pop()
        nn_state.__dict__["save"] = save
        orig_torch_save = _ORIG_TORCH_SAVE

        def torch_save(obj, f, *a, **k):
            # ModelSaver(metadata_only=True) writes with torch.save directly
            if not in_save and isinstance(f, (str, os.PathLike)) and re.search(r"[/\\]sv(\d+)[/\\]m[^/\\]*$", str(f)):
                note_save(f, obj, True)
            return orig_torch_save(obj, f, *a, **k)
        torch.save = torch_save
        if cfg["entryStop"]:
            nn_state.stop_training = True
        h0 = param_hash(nn_state)
        rng0 = common.sha(torch.get_rng_state().numpy().tobytes())
        kwargs = dict(epochs=cfg["epochs"], pos_batch_size=cfg["posB"],
                      neg_batch_size=(cfg["negB"] if cfg["negB"] else None), k=k, lr=lr,
                      starting_epoch=cfg["startEp"], callbacks=_callbacks_arg(cbs), time=time_flag,
                      optimizer=make_optimizer(R, opt_base))
        # the caller's own dictionaries are handed over (not copies): they are the caller's, fit() may read them only
        if opt_args is not None:
            kwargs["optimizer_args"] = opt_args
        if cfg["sched"]:
            kwargs["scheduler"] = make_scheduler(R, sched_base) if sched_base is not None else make_scheduler(R)
            kwargs["scheduler_args"] = sched_args if sched_args else {"step_size": 1, "gamma": 0.5}
            # "the constructor of a torch scheduler" and "arguments to pass to it": the arguments may as well be
            # bound into the constructor (functools.partial, a factory function) and scheduler_args left out / empty
            _SCHED_FORM[0] += 1
            form = _SCHED_FORM[0] % 4
            if form and sched_args is None:
                import functools
                ctor, bound = kwargs["scheduler"], kwargs.pop("scheduler_args")
                kwargs["scheduler"] = (functools.partial(ctor, **bound) if form != 3
                                       else (lambda opt, _c=ctor, _b=bound: _c(opt, **_b)))
                if form == 2:
                    kwargs["scheduler_args"] = {}
        args_before = repr((kwargs.get("optimizer_args"), kwargs.get("scheduler_args")))
        if bases is not None:
            kwargs["input_bases"] = bases
        err = None
        aborted = False
        out = io.StringIO()
        with observe(nn_state, R, numeric=bool(numeric_hook), force=force), contextlib.redirect_stdout(out):
            try:
                # (what the caller asks for is the published default as often as not: k = 1, starting_epoch = 1,
                # time = False, no separate negative batch size, the class's own learning rate)
                common.api_call(nn_state.fit, FIT_ORDER, kwargs, first=(data,),
                                defaults=dict(neg_batch_size=None, k=1, starting_epoch=1, time=False, epochs=100, pos_batch_size=100,
                                              lr=1.0 if cfg["type"] == "density" else 1e-3))
            except UserAbort:           # the planned exception of a user callback left fit(), as it must
                aborted = True
            except Exception as ex:     # reported by the caller, never swallowed silently
                err = ex
        nn_state.__dict__.pop("save", None)
        torch.save = orig_torch_save
        # final projection
        cbstate = []
        S = cfg.get("scale", 1.0)          # records are projected back to the specification's unit (power of two: exact)
        for d, o in zip(cfg["cbs"], cbs):
            if d["t"] == "eval":
                if isinstance(o, MetricEvaluator):
                    # (a record without the metric's value - an evaluation that never completed - is shown as it is)
                    cbstate.append([[int(e), float(v["m"]) / S if "m" in v else "incomplete-record", None]
                                    for e, v in o.past_values])
                else:
                    cbstate.append([[int(e), v["SigmaZ"]["mean"] / S, v["SigmaZ"]["variance"] / S ** 2]
                                    if "SigmaZ" in v else [int(e), "incomplete-record", None] for e, v in o.past_values])
            elif d["t"] == "saver":
                cbstate.append([[nm, None] for nm in R.saved.get(len(cbstate) + 1, [])])
            elif d["t"] == "logger":
                cbstate.append(list(R.logged.get(len(cbstate) + 1, [])))
            elif d["t"] == "early":
                cbstate.append([] if o.last_epoch is None else [int(o.last_epoch)])
            else:
                cbstate.append([])
        if container in ("tensor", "tensor_strided", "numpy", "numpy_fortran"):
            same = data.tolist() == [list(map(float, r)) for r in data_rows]
        else:
            same = data == [list(map(float, r)) for r in data_rows]
        res = dict(hist=R.hist, stop=bool(nn_state.stop_training), pver=R.opt_steps, sched=R.sched_steps,
                   cbs=cbstate, error=err, aborted=aborted, objs=cbs, fnames=getattr(R, "fnames", {}), saves=saves, hash0=h0, hashes=R.hash_at,
                   hash_end=param_hash(nn_state), rng0=rng0,
                   rng_end=common.sha(torch.get_rng_state().numpy().tobytes()),
                   data_same=same and repr(data_rows) == data_before,
                   bases_same=(bases is None or bool((bases == bases_before).all())),
                   args_same=repr((kwargs.get("optimizer_args"), kwargs.get("scheduler_args"))) == args_before,
                   nn_state=nn_state, numeric=R.numeric, lr_after=R.lr_after, stdout=out.getvalue(), time_flag=bool(time_flag),
                   loglines=R.loglines, tmpdir=tmpdir, nv=nv, R=R)
        if prev is not None and "_tmp" in prev:
            res["_tmp"] = prev["_tmp"]
        if own_tmp is not None:
            res["_tmp"] = own_tmp      # keeps the directory alive until the caller drops the result
        return res
    except Exception:
        torch.save = _ORIG_TORCH_SAVE
        if own_tmp is not None:
            own_tmp.cleanup()
        raise


def normalise_spec_hist(hist):
    """TLC's JSON -> same shape the recorder produces."""
    out = []
    for e in hist:
        e = dict(e)
        out.append(e)
    return out


def draws_from_hist(hist):
    return [(e["perm"], e["neg"]) for e in hist if e["k"] == "SH"]


def plan_from_hist(hist):
    return {(e["k"], e["ep"], e["b"], e["cb"]) for e in hist if e.get("inj")} | \
           {("RZ", e["kk"], e["ep"], e["b"], e["cb"]) for e in hist if e["k"] == "RZ"}


def first_diff(a, b):
    for i, (x, y) in enumerate(zip(a, b)):
        if x != y:
            return i, x, y
    if len(a) != len(b):
        i = min(len(a), len(b))
        return i, (a[i] if i < len(a) else None), (b[i] if i < len(b) else None)
    return None
