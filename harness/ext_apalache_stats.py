"""C13 extension - an UNBOUNDED argument for the draw schedule of statistics(), complementing TLC's bounded
exploration of spec/Stats.tla part B (num_samples <= 8, num_chains <= 9 there).

spec/StatsInd.tla is the history-free skeleton of the schedule (integers only: the request S, C, L, the effective
chain count, the number of draws ceil(S / chains), counters instead of the list of draws).  Apalache shows

    O1  Init => IndInv                 O2  IndInv /\\ Next => IndInv'            O3  IndInv => Goal

for ALL S >= 1, C >= 0, L >= 0, burn, steps >= 0, where Goal says what Stats.tla states on its histories: the number
of samples absorbed is chains x draws, at least the request and less than one draw too many; the chain count is the
documented one; the burn-in is applied exactly once.  (The obligations multiply two unknowns - count = i * cp,
nt * cp >= S - i.e. non-linear integer arithmetic; Z3 discharges them in seconds.)  Negative controls: the skeleton
with floor instead of ceil, without the cap num_chains <= num_samples, with the burn-in on every draw must each fail
the inductive step, and the floor variant has a REACHABLE violation of CountOK.  TLC checks the same module on small
bounds, and that Stats.tla - the specification bound to the real statistics() - refines the skeleton with the counters
computed from its list of draws (spec/StatsIndRef.tla).

Nothing here depends on /repo.  If Apalache is unavailable, times out or errors, that is neither a violation nor a
machinery failure (status "skipped"); only a counterexample on the unbroken skeleton is reported.
"""
import os
import shutil
import tempfile
import time

import ext_apalache as ea
import tlc

MODULE = "StatsInd"
OBLIGATIONS = [("O1:init", "Init", "IndInv", 0, "Init => IndInv"),
               ("O2:step", "IndInv", "IndInv", 1, "IndInv /\\ Next => IndInv'"),
               ("O3:goal", "IndInv", "Goal", 0, "IndInv => CountOK /\\ ChainsAsDocumented /\\ burn-in once")]
BROKEN = [("NextFloor", "floor(S / chains) draws instead of ceil", ("quick", "thorough")),
          ("NextNoCap", "num_chains > num_samples not capped", ("thorough",)),
          ("NextBurnAlways", "burn-in applied to every draw", ("thorough",))]


def _apalache(chk, tier, info):
    tool = ea._find_tool()
    if tool is None or shutil.which("timeout") is None:
        raise ea._Unavailable("apalache-mc (or timeout) not found")
    scratch = tempfile.mkdtemp(prefix="verif-apalache-")
    try:
        os.makedirs(os.path.join(scratch, "tmp"))
        shutil.copy(os.path.join(tlc.SPEC, MODULE + ".tla"), scratch)
        cex = []
        for name, init, inv, length, meaning in OBLIGATIONS:
            rec = ea._query(tool, scratch, name, init, inv, length, module=MODULE)
            rec["obligation"] = meaning
            info["queries"].append(rec)
            info["obligations"] += 1
            info["vcs"] += rec["vcs"]
            info["vcs_discharged"] += rec["vcs_discharged"]
            if rec["outcome"] == "NoError":
                info["discharged"] += 1
            else:
                cex.append(rec)
        for rec in cex:
            chk.violation("ext:apalache-stats:inductive-invariant",
                          dict(note="specification-level: counterexample on the UNBROKEN spec/StatsInd.tla",
                               obligation=rec["obligation"], cmd=rec["cmd"], violated=rec.get("violated"),
                               states=rec.get("last_states")))
        if cex:
            info["status"] = "counterexample"
            return
        for nxt, what, tiers in BROKEN:
            if tier not in tiers:
                continue
            rec = ea._query(tool, scratch, "control:" + nxt, "IndInv", "IndInv", 1, next_=nxt, module=MODULE)
            rec["what"] = what
            rec.pop("last_states", None)
            info["controls"].append(rec)
            chk.control(rec["outcome"] == "Error", "IndInv is still inductive for the broken schedule %s (%s)" % (nxt, what))
        rec = ea._query(tool, scratch, "control:reach:NextFloor", "Init", "CountOK", 4, next_="NextFloor", module=MODULE)
        rec["what"] = "bounded run from Init with floor(S / chains) draws: fewer samples than requested"
        rec.pop("last_states", None)
        info["controls"].append(rec)
        chk.control(rec["outcome"] == "Error", "no reachable CountOK violation found with floor instead of ceil")
        info["status"] = "proved"
    finally:
        shutil.rmtree(scratch, ignore_errors=True)


def _tlc_cross(chk, tier, info):
    out = info["tlc"]
    res = tlc.run(MODULE, init="MCInit", invariants=["IndInv", "Goal"], workers=4, heap="2g", timeout=600)
    chk.add_tlc(res, "StatsInd.tla cross-check (MCInit)")
    out.append(dict(label="StatsInd MCInit: IndInv, Goal", **res.summary()))
    if res.violation:
        chk.violation("ext:apalache-stats:inductive-invariant",
                      dict(note="specification-level: TLC finds a reachable state of spec/StatsInd.tla outside IndInv / Goal"
                                + ("; Apalache reported it inductive - the tools DISAGREE" if info["status"] == "proved" else ""),
                           violated=str(res.violation), tlc=res.raw[-3000:]))
    bad = tlc.run(MODULE, init="MCInit", next="NextFloor", invariants=["Goal"], workers=4, heap="2g", timeout=600)
    out.append(dict(label="StatsInd MCInit, NextFloor (must violate Goal)", **bad.summary()))
    chk.control(bad.violation == "Goal", "TLC accepts the schedule with floor instead of ceil (got %r)" % (bad.violation,))
    info["tools_agree"] = (None if info["status"] not in ("proved", "counterexample") else
                           (info["status"] == "proved") == (res.violation is None))
    # Stats.tla part B refines the skeleton
    bounds = dict(MaxS=5, MaxC=6, MaxL=2, MaxObs=2) if tier == "quick" else dict(MaxS=8, MaxC=9, MaxL=3, MaxObs=2)
    ks = "{0, 2}" if tier == "quick" else "{0, 1, 2}"
    ref = tlc.run("StatsIndRef", constants=dict(MaxLen=1, **bounds), defs={"Vals": "{0}", "Ks": ks}, init="InitB", next="NextB",
                  invariants=["RefInit", "RefInv"], properties=["RefStep"], workers=8, heap="4g", timeout=900)
    chk.add_tlc(ref, "StatsIndRef.tla: Stats (part B) refines StatsInd")
    out.append(dict(label="Stats.tla => StatsInd.tla (RefInit, RefInv, [][RefStepAct]_bvars)", **ref.summary()))
    if ref.violation:
        chk.violation("ext:tlc:stats-refines-statsind",
                      dict(note="specification-level: a step / state of spec/Stats.tla (part B) is not one of the skeleton "
                                "spec/StatsInd.tla (the unbounded argument would not cover Stats.tla)",
                           violated=str(ref.violation), tlc=ref.raw[-3000:]))
    bad = tlc.run("StatsIndRef", constants=dict(MaxLen=1, MaxS=3, MaxC=3, MaxL=1, MaxObs=1), defs={"Vals": "{0}", "Ks": "{0, 2}"},
                  init="InitB", next="NextB", properties=["RefStepBurnAlways"], workers=4, heap="2g", timeout=300)
    out.append(dict(label="Stats.tla => skeleton with burn-in on every draw (must fail)", **bad.summary()))
    chk.control(bad.violation is not None and "RefStepBurnAlways" in str(bad.violation),
                "Stats.tla refines the skeleton with the burn-in on every draw (got %r)" % (bad.violation,))


def run(chk, tier, seed):
    """Extend the C13 check `chk`; deterministic."""
    info = dict(status="pending", module="spec/StatsInd.tla", queries=[], controls=[], tlc=[],
                obligations=0, discharged=0, vcs=0, vcs_discharged=0,
                invariant="IndInv == TypeOK /\\ Sched /\\ Burn",
                quantifier="all integers num_samples >= 1, num_chains >= 0, rows of a given initial_state >= 0, burn_in >= 0, steps >= 0")
    chk.extra["apalache_stats"] = info
    t0 = time.time()
    try:
        _apalache(chk, tier, info)
    except ea._Unavailable as ex:
        info.update(status="skipped", why=str(ex))
    info["wall_s"] = round(time.time() - t0, 2)
    if info["obligations"]:
        chk.extra["proof_obligations"] = dict(obligations=info["obligations"], discharged=info["discharged"],
                                              smt_vcs=info["vcs"], smt_vcs_discharged=info["vcs_discharged"],
                                              prover="apalache-mc (Z3, non-linear integer arithmetic)")
    if info["status"] == "proved":
        chk.assumptions.append("unbounded schedule argument (Apalache): about spec/StatsInd.tla, which spec/Stats.tla part B "
                               "refines on the TLC-checked bounded space; trusted: Apalache, Z3")
    _tlc_cross(chk, tier, info)
    info["wall_total_s"] = round(time.time() - t0, 2)
    return info
