"""Data files for C19: written by the harness into a tempfile directory, loaded with the real
load_data / load_data_DM, compared cell by cell with an independent parse of the text
(str.split).  File layout knowledge only; what the loaders must return comes from
spec/DataFile.tla (exports for the enumerated files, TraceData.tla for the seeded ones)."""
import os

import numpy as np

import common

qucumber = common.import_qucumber()
from qucumber.utils import data as qdata  # noqa: E402

BIT_STYLES = [("0", "1"), ("0.0", "1.0"), ("0.000000000000000000e+00", "1.000000000000000000e+00"), ("0", "1.")]


def write_rows(path, rows, sep=" "):
    with open(path, "w") as fh:
        for r in rows:
            fh.write(sep.join(str(t) for t in r) + "\n")


def parse_rows(path):
    """the independent parse: text -> rows of tokens"""
    with open(path) as fh:
        return [ln.split() for ln in fh.read().splitlines() if ln.strip()]


def bit_tokens(rows, style):
    z, o = BIT_STYLES[style % len(BIT_STYLES)]
    return [[o if int(b) else z for b in r] for r in rows]


def decimal_token(rng):
    """a decimal string with 16-17 significant digits: not representable in binary32"""
    while True:
        v = rng.uniform(-1, 1) * 10 ** rng.randint(-3, 1)
        tok = repr(v) if rng.random() < 0.6 else "%.16e" % v
        if float(np.float32(float(tok))) != float(tok):
            return tok


def single(tok):
    """the token's value to single precision, as a python float"""
    return float(np.float32(float(tok)))


def is_single_of(loaded, tok):
    """loaded is a binary32 number nearest (ties allowed) to the token's decimal value"""
    v = float(tok)
    if loaded == single(tok):
        return True
    if float(np.float32(loaded)) != loaded:
        return False
    return abs(loaded - v) <= float(np.spacing(np.float32(abs(v)))) / 2 * (1 + 1e-9)


def flat(a):
    """row-major contents of whatever shape the loader returned (numpy.loadtxt collapses
    single-row / single-column files to 1-D, single cells to 0-D: recorded, not judged)"""
    if hasattr(a, "detach"):
        a = a.detach().cpu().numpy()
    return np.asarray(a).reshape(-1).tolist()


def shape_of(a):
    return tuple(a.shape)


def as_2d(a, nrows, ncols):
    if hasattr(a, "detach"):
        return a.reshape(nrows, ncols)
    return np.asarray(a).reshape(nrows, ncols)
