"""C20 - Model construction and reset honour their documented contracts.

spec/Heap.tla models storages, network objects, one neural state and one user module.  TLC
explores every sequence of construct (from sizes / from a module) / user write / reinitialise /
fit actions of a bounded length for the three state types and checks NoAlias, ModuleContract,
Isolation, SizesContract, ReinitContract, GuardContract, PhaseAuxFrozen, PhaseAuxZero.
Every exported behaviour (exhaustive short ones; seeded simulation with larger sizes, more
optimizers and longer sequences) is replayed on the real classes; after each action the real
storage relation (data_ptr), shapes, sizes, value hashes, raised error, callback events and
generator movement are compared with the specification's view (harness/lifecycle_heap.py).
"""
import copy
import random
import re

import common
import tlc
import lifecycle_heap as lh

PID = "C20"
INV = ["TypeOK", "NoAlias", "ModuleContract", "Isolation", "SizesContract", "ReinitContract", "GuardContract",
       "PhaseAuxFrozen", "PhaseAuxZero"]
EXPORT = "MC_Export == (n = MaxLen) => PrintT(ToJson([hist |-> hist]))"


def defs(nvs="{2, 3}", nhs="{0, 3}", nas="{0, 1}", mods="{<<2,3,1>>}", mut="{1, 3}",
         opts=("SGD", "SGDm", "Adam"), types=("positive", "complex", "density")):
    q = lambda xs: "{" + ", ".join('"%s"' % x for x in xs) + "}"  # noqa: E731
    return {"Types": q(types), "NVs": nvs, "NHs": nhs, "NAs": nas, "ModSizes": mods, "MutIdx": mut,
            "Optimizers": q(opts)}


def mc(maxlen, d, bugs=(), export=False, simulate=None, seed=None, timeout=3000, workers=16):
    consts = {"MaxLen": maxlen, "Export": export, "AliasBug": False, "ReinitBug": False, "GuardLate": False}
    for b in bugs:
        consts[b] = True
    res = tlc.run("Heap", constants=consts, defs=d, invariants=INV + (["MC_Export"] if export else []),
                  extends_extra=["Json"] if export else (), extra_text=EXPORT if export else "",
                  workers=1 if simulate else workers, timeout=timeout,
                  simulate=("num=%d" % simulate) if simulate else None,
                  depth=(maxlen + 1) if simulate else None, seed=seed)
    if simulate:
        m = re.search(r"(\d+) states checked", res.raw)
        res.generated = res.distinct = int(m.group(1)) if m else 0
    return res


def violation_key(beh, i, what, detail):
    act = beh["hist"][i]["act"]
    ty = act["ty"] if act["a"] in ("ConstructSizes", "ConstructModule") else beh["hist"][i]["type"]
    if what == "exception":
        if act["a"] == "ConstructModule" and detail["exc"] == "AttributeError" and "clone" in detail["error"]:
            return "construct:module-path:%s" % ty
        return "replay:exception:%s:%s:%s" % (act["a"], detail["exc"], ty)
    return "replay:%s:%s:%s" % (what, act["a"], ty)


def acts_of(beh, upto=None):
    h = beh["hist"] if upto is None else beh["hist"][:upto + 1]
    out = []
    for s in h:
        a = s["act"]
        out.append({k: v for k, v in a.items() if v not in ("", 0, False) or k == "a"})
    return out


def replay(path):
    """./check C20 --replay <file>: re-run the recorded behaviour on the current working tree."""
    import json
    with open(path) as fh:
        rec = json.load(fh)
    d = rec["detail"]
    probs = lh.replay(d["behaviour"], d.get("seed", 0))
    for i, what, detail in probs:
        print("step %d %s: %s %s" % (i, d["behaviour"]["hist"][i]["act"]["a"], what, detail))
    print("reproduced" if probs else "not reproduced (behaviour replays cleanly)")
    return 1 if probs else 0


def extra_contracts(chk):
    """Boundary sizes and the bases guard under a left-over stop request (second-round seeded faults)."""
    import numpy as np
    import torch
    import lifecycle_heap as LH
    from qucumber.nn_states import ComplexWaveFunction, DensityMatrix
    from qucumber.callbacks import LambdaCallback
    # explicit sizes are honoured also at the boundary 0 for the purification RBM (a legal, working model)
    for nv, nh, na in ((3, 2, 0), (3, 0, 2), (2, 0, 0), (4, None, 0), (2, 3, None)):
        chk.evaluations += 1
        try:
            st = DensityMatrix(nv, nh, na, gpu=False)
        except Exception as ex:           # noqa: BLE001
            chk.violation("construct:boundary-size:exception", dict(sizes=[nv, nh, na], error=repr(ex)))
            continue
        wnh, wna = (nv if nh is None else nh), (nv if na is None else na)
        for rnd in range(2):
            bad = []
            for net in (st.rbm_am, st.rbm_ph):
                got = dict(W=list(net.weights_W.shape), U=list(net.weights_U.shape), b=list(net.visible_bias.shape),
                           c=list(net.hidden_bias.shape), d=list(net.aux_bias.shape))
                want = dict(W=[wnh, nv], U=[wna, nv], b=[nv], c=[wnh], d=[wna])
                if got != want:
                    bad.append(dict(got=got, want=want))
            if bad or (st.num_hidden, st.num_aux) != (wnh, wna) or (st.rbm_am.num_hidden, st.rbm_am.num_aux) != (wnh, wna):
                chk.violation("construct:boundary-size:shapes", dict(sizes=[nv, nh, na], after="reinitialize" if rnd else "construction",
                                                                   problems=bad, state_sizes=[st.num_hidden, st.num_aux]))
                break
            st.reinitialize_parameters()
    # training without bases is refused before anything changes - also when a stop request is still set
    # (left behind by a callback that ended an earlier run)
    data = torch.tensor([[0., 1.], [1., 0.], [1., 1.]], dtype=torch.double)
    for cls, args in ((ComplexWaveFunction, (2, 2)), (DensityMatrix, (2, 2, 2))):
        for flag in (False, True):
            st = cls(*args, gpu=False)
            st.stop_training = flag
            events = []
            cb = LambdaCallback(on_train_start=lambda s: events.append("TS"), on_train_end=lambda s: events.append("TE"))
            h0 = [p.detach().clone() for net in st.networks for p in getattr(st, net).parameters()]
            r0 = torch.get_rng_state().clone()
            chk.evaluations += 1
            try:
                out = st.fit(data, epochs=2, pos_batch_size=2, callbacks=[cb])
                chk.violation("guard:fit-without-bases-not-refused:%s" % cls.__name__,
                              dict(stop_training_was=flag, returned=repr(out), events=events))
            except ValueError:
                pass
            except Exception as ex:       # noqa: BLE001
                chk.violation("guard:fit-without-bases:wrong-exception:%s" % cls.__name__, dict(stop_training_was=flag, error=repr(ex)))
            h1 = [p.detach() for net in st.networks for p in getattr(st, net).parameters()]
            if events or not all(torch.equal(a, b) for a, b in zip(h0, h1)) or not torch.equal(r0, torch.get_rng_state()):
                chk.violation("guard:fit-without-bases-changed-something:%s" % cls.__name__,
                              dict(stop_training_was=flag, events=events))
    chk.nontriv("boundary-sizes-and-guard")
    # one user module, several states built from it one after the other (the module is the amplitude network of
    # each; every state's phase network is its OWN copy of the module as it is when that state is built)
    from qucumber.nn_states import ComplexWaveFunction as CW
    from qucumber.rbm import BinaryRBM, PurificationRBM
    for typ, cls, mk in (("complex", CW, lambda: BinaryRBM(3, 2, gpu=False)), ("density", DensityMatrix, lambda: PurificationRBM(3, 2, 2, gpu=False))):
        M = mk()
        s1 = cls(3, module=M, gpu=False)
        with torch.no_grad():
            for p in M.parameters():
                p.add_(1.5)                       # the user (or training of s1) moves the module
        s2 = cls(3, module=M, gpu=False)
        s3 = cls(3, module=M, gpu=False)
        chk.evaluations += 1
        det = dict(state_type=typ, scenario="s1 = T(module=M); M += 1.5; s2 = T(module=M); s3 = T(module=M)")
        if not (s2.rbm_am is M and s3.rbm_am is M):
            chk.violation("module-twice:%s:amplitude-network-is-not-the-module" % typ, det)
        phs = [s1.rbm_ph, s2.rbm_ph, s3.rbm_ph]
        if len({id(x) for x in phs} | {id(M)}) != 4 or len({p.data_ptr() for x in phs + [M] for p in x.parameters()}) != 4 * len(list(M.parameters())):
            chk.violation("module-twice:%s:phase-networks-shared" % typ, det)
        for name, st in (("s2", s2), ("s3", s3)):
            if not all(torch.equal(a, b) for a, b in zip(st.rbm_ph.parameters(), M.parameters())):
                chk.violation("module-twice:%s:phase-network-is-not-a-copy-of-the-module" % typ, dict(det, state=name))
        before = [p.detach().clone() for p in s3.rbm_ph.parameters()]
        with torch.no_grad():
            for p in s2.rbm_ph.parameters():
                p.mul_(0.0).sub_(2.0)
        if not all(torch.equal(a, b) for a, b in zip(before, s3.rbm_ph.parameters())):
            chk.violation("module-twice:%s:writing-one-phase-network-changed-another" % typ, det)
    chk.nontriv("module-twice")


def run(tier, seed):
    chk = common.Check(PID, tier, seed)
    rng = random.Random(seed)
    quick = tier == "quick"
    chk.rule = ("TLC: every sequence of <= N actions (construct from sizes with given / defaulted num_hidden, "
                "num_aux; user builds a module; construct from the module; user writes to am / ph / module; "
                "reinitialise; fit with / without bases x optimizer) x 3 state types.  Replay: every behaviour of "
                "the exported lengths + seeded simulation with larger sizes / more optimizers.  Non-trivial = "
                "behaviour with a constructed state and >= 1 later action on it")
    # ---- 1. exhaustive ----------------------------------------------------------------
    runs = [("<= 3 actions, 3 optimizers", 3, defs())]
    if quick:
        runs.append(("<= 4 actions, 1 optimizer", 4, defs(opts=("SGD",), nvs="{2}")))
    else:
        runs.append(("<= 5 actions, 3 optimizers", 5, defs()))
        runs.append(("<= 6 actions, 1 optimizer, default sizes", 6,
                     defs(opts=("Adam",), nvs="{2}", nhs="{0}", nas="{0}", mut="{1}")))
    for label, L, d in runs:
        res = mc(L, d)
        chk.add_tlc(res, "Heap.tla " + label)
        if res.violation:
            chk.violation("spec:" + str(res.violation), dict(run=label, tlc=res.raw[-4000:]))
            return chk.finish()
    # anti-vacuity: specifications with the defects the property is about must violate
    for bug, inv in (("AliasBug", {"NoAlias", "ModuleContract", "Isolation"}), ("ReinitBug", {"ReinitContract"}),
                     ("GuardLate", {"GuardContract"})):
        res = mc(3, defs(), bugs=[bug], workers=4)
        chk.control(res.violation in inv, "specification with %s violated %r" % (bug, res.violation))

    # ---- 2. spec -> code --------------------------------------------------------------
    behs = []
    for L in ((1, 2) if quick else (1, 2, 3)):
        res = mc(L, defs(), export=True, workers=8)
        chk.add_tlc(res, "Heap.tla export (all behaviours of %d actions)" % L)
        behs += [(e, "bfs") for e in res.exports]
    if quick:      # the 3-action behaviours over default sizes only
        res = mc(3, defs(nvs="{2}", nhs="{0}", nas="{0}"), export=True, workers=8)
        chk.add_tlc(res, "Heap.tla export (all behaviours of 3 actions, default sizes)")
        behs += [(e, "bfs") for e in res.exports]
    big = defs(nvs="{1, 2, 4}", nhs="{0, 1, 5}", nas="{0, 2, 3}", mods="{<<2,3,1>>, <<3,1,2>>, <<1,2,1>>}", mut="{1, 2, 3, 4}",
               opts=("SGD", "SGDm", "Adam", "RMSprop", "Adagrad", "SGDnesterov"))
    res = mc(9, big, export=True, simulate=12 if quick else 150, seed=seed % 100000)
    chk.add_tlc(res, "Heap.tla simulation depth 9 (larger sizes, 6 optimizers)")
    if res.violation:
        chk.violation("spec:" + str(res.violation), dict(tlc=res.raw[-4000:]))
        return chk.finish()
    by_prefix = {}
    for e in res.exports:
        by_prefix.setdefault(repr([s["act"] for s in e["hist"][:-1]]), []).append(e)
    for k in sorted(by_prefix):
        for e in rng.sample(by_prefix[k], min(4, len(by_prefix[k]))):
            behs.append((e, "sim"))
    if not behs:
        raise common.MachineryError("TLC exported no behaviour")

    clean = []
    for j, (beh, origin) in enumerate(behs):
        probs = lh.replay(beh, seed)
        chk.evaluations += len(beh["hist"])
        names = [s["act"]["a"] for s in beh["hist"]]
        first = min([i for i, a in enumerate(names) if a.startswith("Construct")] or [99])
        if first < len(names) - 1:
            chk.nontriv(j)
        if not probs:
            clean.append(beh)
            chk.traces += 1
        seen = set()
        for i, what, detail in probs:
            key = violation_key(beh, i, what, detail)
            if key in seen:
                continue
            seen.add(key)
            chk.violation(key, dict(actions=acts_of(beh, i), at=i, problem=what, detail=detail, seed=seed,
                                    expected_view={k: beh["hist"][i][k] for k in ("err", "type", "mIsAm", "dEv", "dRng")},
                                    behaviour=dict(hist=beh["hist"][:i + 1])))
        if j % 61 == 3:
            chk.sample(dict(origin=origin, actions=acts_of(beh)))

    # ---- 3. negative controls on the comparator ---------------------------------------
    def donor(pred):
        for b in clean:
            for i, s in enumerate(b["hist"]):
                if pred(b, i, s):
                    return copy.deepcopy(b), i
        raise common.MachineryError("no donor behaviour for a negative control")

    def expected_control(pred, corrupt, what):
        """Corrupt one expected value of a behaviour that replayed cleanly; the comparator must object."""
        try:
            b, i = donor(pred)
        except common.MachineryError:
            if chk.violations:       # the implementation is broken there; nothing clean to corrupt
                return
            raise
        corrupt(b["hist"], i)
        chk.control(bool(lh.replay(b, seed)), what)

    def c_alias(h, i):
        h[i]["ph"][0]["st"] = h[i]["am"][0]["st"]

    def c_zero(h, i):
        h[i]["am"][0]["val"] = ["zero", 0]

    def c_shape(h, i):
        h[i]["am"][0]["shape"] = [h[i]["am"][0]["shape"][0] + 1, h[i]["am"][0]["shape"][1]]

    def c_guard(h, i):
        h[i]["err"] = ""

    def c_reinit(h, i):
        h[i]["ph"][0]["val"] = h[i - 1]["ph"][0]["val"]

    def c_mut(h, i):
        h[i]["ph"][0]["val"] = ["mut", 999]

    expected_control(lambda b, i, s: s["act"]["a"] == "ConstructSizes" and s["type"] != "positive", c_alias,
                     "expected view with aliased am / ph weights compared equal")
    expected_control(lambda b, i, s: s["act"]["a"] == "ConstructSizes", c_zero,
                     "expected view with zero weights compared equal")
    expected_control(lambda b, i, s: s["act"]["a"] == "ConstructSizes" and s["act"]["nh"] == 0, c_shape,
                     "expected view with another default num_hidden compared equal")
    expected_control(lambda b, i, s: s["act"]["a"] == "Fit" and s["err"] == "ValueError", c_guard,
                     "expected view in which the guard does not fire compared equal")
    expected_control(lambda b, i, s: s["act"]["a"] == "Reinit" and i > 0 and s["type"] != "positive", c_reinit,
                     "expected view in which reinitialisation keeps the phase weights compared equal")
    expected_control(lambda b, i, s: s["act"]["a"] == "Mutate" and s["act"]["tgt"] == "am" and s["type"] != "positive",
                     c_mut, "expected view in which a write to am changes ph compared equal")
    # implementation-side controls: real objects with the defects must be flagged
    import lifecycle_heap
    orig = lifecycle_heap.apply

    def aliasing_apply(w, act, r):
        info = orig(w, act, r)
        if act["a"] == "ConstructSizes" and act["ty"] != "positive":
            w.S.rbm_ph = w.S.rbm_am
        return info

    def nonzero_aux_apply(w, act, r):
        if act["a"] == "Fit" and w.type == "density":
            real = type(w.S).pi_grad

            def pi_grad(self, v, vp, phase=False, expand=False):
                g = real(self, v, vp, phase=phase, expand=expand)
                if phase:
                    g = g.clone()
                    g[..., -1] += 0.25
                return g
            type(w.S).pi_grad = pi_grad
            try:
                return orig(w, act, r)
            finally:
                type(w.S).pi_grad = real
        return orig(w, act, r)

    for name, fn, pred in (("rbm_ph = rbm_am", aliasing_apply,
                            lambda b, i, s: s["act"]["a"] == "ConstructSizes" and s["type"] == "complex"),
                           ("non-zero auxiliary-bias gradient row", nonzero_aux_apply,
                            lambda b, i, s: s["act"]["a"] == "Fit" and s["type"] == "density" and s["err"] == "")):
        try:
            b, i = donor(pred)
        except common.MachineryError:
            if chk.violations:
                continue
            raise
        lifecycle_heap.apply = fn
        try:
            flagged = bool(lh.replay(b, seed))
        finally:
            lifecycle_heap.apply = orig
        if flagged or not chk.violations:      # (with violations around, the donor may be degenerate)
            chk.control(flagged, "real objects with %s compared equal" % name)

    chk.extra["behaviours"] = dict(bfs=sum(1 for _, o in behs if o == "bfs"), sim=sum(1 for _, o in behs if o == "sim"),
                                   clean=len(clean))
    chk.assumptions += ["CPU only; gpu=False or gpu=True (which falls back to the CPU with a warning) passed in rotation",
                        "num_hidden / num_aux >= 1 when given; modules of the matching RBM class",
                        "the user never writes to an auxiliary bias; user writes are in place",
                        "training data contains >= 1 all-Z row; optimizers without weight decay",
                        "after a violation inside a behaviour its remaining actions are not replayed"]
    extra_contracts(chk)
    return chk.finish()
