"""C13 helper: drive the real `statistics` / `_update_statistics`, record what an outside
observer can see, and turn the records into lines for spec/TraceStats.tla.

Recorder: a wrapper installed on the *instance* attribute `sample` of the neural state.
For every call it logs k, num_samples, the identity token of initial_state (0 = None,
1 = the user's buffer, 2.. = other objects in order of first appearance), overwrite, the
token of the returned buffer, content ids (ids of the bit patterns: 1 = what the user
handed in, 2.. in order of first appearance) of initial_state before and of the returned
buffer after the call, and a copy of the returned chain states.
"""
import inspect
import json
import math
import os
import shutil
import tempfile
from fractions import Fraction

import common
import tlc

common.import_qucumber()
import torch  # noqa: E402
from qucumber.nn_states import PositiveWaveFunction, ComplexWaveFunction, DensityMatrix  # noqa: E402
from qucumber.observables import SigmaZ, NeighbourInteraction, System  # noqa: E402
import qucumber.observables.utils as obs_utils  # noqa: E402

KNOWN_KEY = "statistics:num_chains=1"
STATE_KINDS = ("positive", "complex", "density")
INT32 = 2 ** 31 - 1
SCHED_INV = ["TypeOKB", "CountOK", "ChainsAsDocumented", "EveryDrawAllChains", "BurnOnceFirst",
             "Continuity", "UserBuffer", "SharedAdvance"]


# ---------------------------------------------------------------------------
# states and observables

def make_state(kind, n, seed):
    torch.manual_seed(seed)
    if kind == "positive":
        return PositiveWaveFunction(n, n, gpu=False)
    if kind == "complex":
        return ComplexWaveFunction(n, n, gpu=False)
    return DensityMatrix(n, n, n, gpu=False)


def _named(o, name):
    o.name = name
    return o


# every per-sample value times num_visible is an integer, |value| <= 3
OBS = [
    ("Z", lambda: SigmaZ()),
    ("ZZ1", lambda: _named(NeighbourInteraction(c=1), "ZZ1")),
    ("2Z-ZZ1", lambda: _named(2 * SigmaZ() - NeighbourInteraction(c=1), "2Z-ZZ1")),
    ("ZZ1p", lambda: _named(NeighbourInteraction(periodic_bcs=True, c=1), "ZZ1p")),
    ("|Z|", lambda: _named(SigmaZ(absolute=True), "|Z|")),
    ("1-Z", lambda: _named(1 - SigmaZ(), "1-Z")),
    ("Z+ZZ1+ZZ1p", lambda: _named(SigmaZ() + NeighbourInteraction(c=1) + NeighbourInteraction(periodic_bcs=True, c=1),
                                  "Z+ZZ1+ZZ1p")),
    ("-3ZZ1", lambda: _named(-3 * NeighbourInteraction(c=1), "-3ZZ1")),
]


def make_obs(indices):
    return [OBS[i][1]() for i in indices]


# ---------------------------------------------------------------------------
# recorder

def _bits(t):
    # contents = the 0/1 values (a float32 / int64 buffer and its float64 conversion hold the same contents)
    a = t.detach().cpu().to(torch.double).contiguous()
    return (tuple(a.shape), a.numpy().tobytes())


class Recorder:
    def __init__(self, state, user):
        self.state = state
        self.real = type(state).sample
        self.sig = inspect.signature(self.real)
        self.tokens, self.keep, self.contents = {}, [], {}
        self.calls, self.snaps = [], []
        if user is not None:
            self.tokens[id(user)] = 1
            self.keep.append(user)
            self.contents[_bits(user)] = 1

    def tok(self, t):
        if t is None:
            return 0
        if id(t) not in self.tokens:
            self.tokens[id(t)] = max([1] + list(self.tokens.values())) + 1
            self.keep.append(t)              # keep alive: ids are never reused
        return self.tokens[id(t)]

    def cid(self, t):
        if t is None:
            return 0
        b = _bits(t)
        if b not in self.contents:
            self.contents[b] = max([1] + list(self.contents.values())) + 1
        return self.contents[b]

    def __call__(self, *a, **kw):
        ba = self.sig.bind(self.state, *a, **kw)
        ba.apply_defaults()
        arg = ba.arguments
        init = arg["initial_state"]
        rec = {"k": int(arg["k"]), "ns": int(arg["num_samples"]), "init": self.tok(init),
               "ow": bool(arg["overwrite"]), "from": self.cid(init)}
        ret = self.real(*ba.args, **ba.kwargs)
        rec["ret"] = self.tok(ret)
        rec["to"] = self.cid(ret)
        self.calls.append(rec)
        self.snaps.append(ret.detach().clone())
        return ret


def scaled_values(obs, state, snap):
    """n * O(sigma) for every row of a recorded chain state, as exact integers."""
    n = state.num_visible
    v = obs.apply(state, snap.clone())
    v = torch.as_tensor(v, dtype=torch.double).reshape(-1) * n
    r = torch.round(v)
    if float((v - r).abs().max()) > 1e-7:
        raise common.MachineryError("observable %s: n*value is not an integer" % obs.name)
    return [int(x) for x in r.tolist()]


def real_call(cfg, state, obs_list, user):
    """cfg: kind ('obs' / 'sys'), S, C, burn, steps, ow (+ L = rows of `user` or 0).
    Returns the observation of one real statistics() call."""
    rec = Recorder(state, user)
    target = obs_list[0] if cfg["kind"] == "obs" else System(*obs_list)
    user0 = None if user is None else _bits(user)
    out = dict(error=None, res=None, raw=None)
    state.sample = rec
    try:
        try:
            raw = common.api_call(target.statistics, ["num_samples", "num_chains", "burn_in", "steps", "initial_state", "overwrite"],
                                  dict(num_samples=cfg["S"], num_chains=cfg["C"], burn_in=cfg["burn"], steps=cfg["steps"],
                                       initial_state=user, overwrite=cfg["ow"]), first=(state,),
                                  defaults=dict(num_chains=0, burn_in=1000, steps=1, initial_state=None, overwrite=False))
            out["raw"] = raw
            if cfg["kind"] == "obs":
                out["res"] = [raw]
            else:
                if list(raw.keys()) != [o.name for o in obs_list]:
                    # documented: "keys will be the names of the observables" - a finding, reported with its input
                    class SystemResultKeys(Exception):
                        pass
                    raise SystemResultKeys("System.statistics returned keys %r for observables named %r"
                                           % (list(raw.keys()), [o.name for o in obs_list]))
                out["res"] = [raw[o.name] for o in obs_list]
        except common.MachineryError:
            raise
        except Exception as e:  # noqa: BLE001 - reported as a finding with its input
            out["error"] = e
    finally:
        del state.sample
    out["calls"] = rec.calls
    # a chain state handed back by sample() must be a 0/1 array (C05); when it is not (e.g. an
    # observable wrote into the live chain tensor and the next draw continued from it) the run has no
    # counterpart in the specification: reported as a violation, not as a machinery failure
    if any(bool(((s_ != 0) & (s_ != 1)).any()) for s_ in rec.snaps):
        class ChainStateNotBinary(Exception):
            pass
        if out["error"] is None:
            out["error"] = ChainStateNotBinary("sample() returned a chain state that is not a 0/1 array")
        out["vals"] = []
    else:
        out["vals"] = [[scaled_values(o, state, s) for o in obs_list] for s in rec.snaps]
    out["ucont"] = 0 if user is None else rec.cid(user)
    out["user_same"] = None if user is None else (_bits(user) == user0)
    out["user_is_last"] = None if (user is None or not rec.snaps) else (_bits(user) == _bits(rec.snaps[-1]))
    return out


def chains_of(cfg):
    """C' by the documented rule."""
    if cfg["L"] > 0:
        return cfg["L"]
    return cfg["S"] if (cfg["C"] == 0 or cfg["C"] > cfg["S"]) else cfg["C"]


def exact_stats(ys, n):
    """One pass over integer-scaled values: (mean, unbiased variance or None, N) as Fractions."""
    N = len(ys)
    s, q = sum(ys), sum(y * y for y in ys)
    mean = Fraction(s, N * n) if N else None
    var = Fraction(N * q - s * s, N * (N - 1) * n * n) if N >= 2 else None
    return mean, var, N


def _finite(x):
    return isinstance(x, (int, float)) and not isinstance(x, bool) and math.isfinite(x)


def _close(x, f, tol=1e-9):
    return _finite(x) and abs(float(x) - float(f)) <= tol * max(1.0, abs(float(f)))


class Tally:
    """Aggregates failures per (key, what): one violation each, with the smallest input seen."""

    def __init__(self):
        self.items = {}

    def add(self, key, what, detail, size=0):
        it = self.items.setdefault((key, what), dict(count=0, size=None, detail=None))
        it["count"] += 1
        if it["size"] is None or size < it["size"]:
            it["size"], it["detail"] = size, detail

    def flush(self, chk):
        for (key, what), it in sorted(self.items.items()):
            chk.violation(key, dict(what=what, failures=it["count"], smallest=it["detail"]))
        self.items = {}

    def __len__(self):
        return len(self.items)


def check_numbers(tally, site, cfg, obs_names, out, n, info=None):
    """Reported numbers of one call against one pass (python Fractions) over every recorded value.
    Failures that a single chain causes (1-sample blocks) go to KNOWN_KEY."""
    cp = chains_of(cfg)
    single = cp == 1
    size = cfg["S"] * 100 + cp
    info = info or dict(cfg=cfg, observables=obs_names)
    if out["error"] is not None:
        e = out["error"]
        key = KNOWN_KEY if (single and isinstance(e, ZeroDivisionError)) else "%s:exception:%s" % (site, type(e).__name__)
        tally.add(key, "%s raised %r" % (site, e), dict(info, draws_before_error=len(out["calls"])), size)
        return False
    ok = True
    for j, r in enumerate(out["res"]):
        ys = [y for draw in out["vals"] for y in draw[j]]
        mean, var, N = exact_stats(ys, n)
        got = {k: r.get(k) for k in ("mean", "variance", "std_error", "num_samples")}
        d = dict(info, observable=obs_names[j], reported=got,
                 one_pass=dict(mean=str(mean), variance=str(var), num_samples=N))
        c = got["num_samples"]
        if not (_finite(c) and int(c) == c and int(c) == N and N == cp * len(out["calls"])):
            tally.add(site + ":count", "num_samples differs from chains x draws", d, size)
            ok = False
        if N >= 1 and not _close(got["mean"], mean):
            tally.add(site + ":mean", "mean differs from one pass", d, size)
            ok = False
        if N >= 2:
            if not _close(got["variance"], var):
                tally.add(KNOWN_KEY if single else site + ":variance", "variance differs from one pass (unbiased)", d, size)
                ok = False
            elif not _close(got["std_error"], math.sqrt(var / N)):
                tally.add(KNOWN_KEY if single else site + ":std_error", "std_error differs from sqrt(variance/N)", d, size)
                ok = False
    return ok


# ---------------------------------------------------------------------------
# spec -> code, part A: the merge routine on TLC's datasets / splits

def rat(p):
    return None if p[1] == 0 else Fraction(p[0], p[1])


def block_summary(xs):
    """What the callers hand to the merge: torch.var_mean of the block (float64); the code's own
    (0.0, 0.0, 0) for no data."""
    if not xs:
        return (0.0, 0.0, 0)
    var, mean = torch.var_mean(torch.tensor(xs, dtype=torch.double))
    return (mean.item(), var.item(), len(xs))


_BLOCKS = {}


def block_summary_cached(xs):
    k = tuple(xs)
    if k not in _BLOCKS:
        _BLOCKS[k] = block_summary(xs)
    return _BLOCKS[k]


def merge_case(tally, case, merge=None, site="merge"):
    """One exported case [xs, parts, fold, one] against the real routine (or a control `merge`).
    Returns True iff everything agreed."""
    merge = merge or obs_utils._update_statistics
    xs, parts = case["xs"], case["parts"]
    # the spec's own arithmetic against an independent exact implementation
    mean, var, N = exact_stats(xs, 1)
    one, f = case.get("one"), case.get("fold")        # absent when a stored case is re-run
    if one is not None and (one["n"], rat(one["mean"]), rat(one["var"])) != (N, mean, var):
        raise common.MachineryError("Stats.tla OnePass disagrees with python fractions on %r" % (xs,))
    if f is not None and (f["n"] != N or (N >= 1 and rat(f["mean"]) != mean) or (N >= 2 and rat(f["var"]) != var)):
        raise common.MachineryError("Stats.tla Fold disagrees with python fractions on %r %r" % (xs, parts))
    blocks, at = [], 0
    for p in parts:
        blocks.append(xs[at:at + p])
        at += p
    single = 1 in parts
    size = len(xs) * 1000 + len(parts) * 10 + sum(abs(x) for x in xs)
    ok = True

    def compare(got, upto, how):
        nonlocal ok
        m, v, n = exact_stats(xs[:upto], 1)
        bad = None
        if got[2] != n:
            bad = "length"
        elif n >= 1 and not _close(got[0], m, 1e-12):
            bad = "mean"
        elif n >= 2 and not _close(got[1], v, 1e-12):
            bad = "variance"
        if bad:
            ok = False
            key = KNOWN_KEY if (single and bad == "variance") else "%s:%s" % (site, bad)
            tally.add(key, "_update_statistics: %s of the merged summary differs from one pass (%s)" % (bad, how),
                      dict(repro=dict(site="merge", xs=xs, parts=parts), got=list(got), one_pass=[str(m), str(v), n]), size)

    def call(a, b, how):
        nonlocal ok
        try:
            return merge(a[0], a[1], a[2], b[0], b[1], b[2])
        except Exception as e:  # noqa: BLE001
            ok = False
            key = KNOWN_KEY if (single and isinstance(e, ZeroDivisionError)) else "%s:exception:%s" % (site, type(e).__name__)
            tally.add(key, "_update_statistics raised %r (%s)" % (e, how),
                      dict(repro=dict(site="merge", xs=xs, parts=parts), a=list(a), b=list(b)), size)
            return None

    running, at = (0.0, 0.0, 0), 0
    for blk in blocks:
        running = call(running, block_summary_cached(blk), "running summary merged with the next block")
        if running is None:
            break
        at += len(blk)
        compare(running, at, "chained from the empty summary")
    if len(blocks) == 2:
        got = call(block_summary_cached(blocks[0]), block_summary_cached(blocks[1]), "two blocks merged directly")
        if got is not None:
            compare(got, len(xs), "two blocks merged directly")
    return ok


# python renderings of wrong merges (comparator controls)
def merge_biased(avg_a, var_a, len_a, avg_b, var_b, len_b):
    if len_a == len_b == 0:
        return 0.0, 0.0, 0
    n = len_a + len_b
    mean = (avg_a * len_a + avg_b * len_b) / float(n)
    d = avg_b - avg_a
    v = var_a * (len_a - 1) + var_b * (len_b - 1) + d ** 2 * len_a * len_b / float(n)
    return mean, v / float(n), n


def merge_sq(avg_a, var_a, len_a, avg_b, var_b, len_b):
    if len_a == len_b == 0:
        return 0.0, 0.0, 0
    n = len_a + len_b
    mean = (avg_a * len_a + avg_b * len_b) / float(n)
    d = avg_b - avg_a
    v = var_a * (len_a - 1) + var_b * (len_b - 1) + d ** 2 * len_a * len_b / float(n) ** 2
    return mean, v / float(n - 1), n


# ---------------------------------------------------------------------------
# spec -> code, part B: replay a schedule behaviour

def user_buffer(L, n, seed, conv=False):
    if L == 0:
        return None
    g = torch.Generator().manual_seed(seed)
    t = torch.randint(0, 2, (L, n), generator=g)
    if conv:          # a 0/1 tensor as a data file or a default-dtype constructor gives it
        return t if seed % 2 else t.to(torch.float32)
    return t.to(torch.double)


def replay_schedule(tally, beh, state, obs_idx, seed, site="replay", state_id=None):
    cfg = beh["cfg"]
    n = state.num_visible
    obs_list = make_obs(obs_idx)
    names = [OBS[i][0] for i in obs_idx]
    user = user_buffer(cfg["L"], n, seed, cfg.get("conv", False))
    torch.manual_seed(seed)
    out = real_call(cfg, state, obs_list, user)
    size = cfg["S"] * 100 + beh["cp"]
    info = dict(cfg=cfg, observables=names, state=type(state).__name__,
                repro=dict(site="call", cfg=cfg, obs=list(obs_idx), state=state_id, seed=seed))
    if not check_numbers(tally, site, cfg, names, out, n, info=info) and out["error"] is not None:
        return False
    ok = True
    want = [{k: d[k] for k in ("k", "ns", "init", "ow", "ret")} for d in beh["draws"]]
    got = [{k: d[k] for k in ("k", "ns", "init", "ow", "ret")} for d in out["calls"]]
    if want != got:
        i = next((i for i, (a, b) in enumerate(zip(want, got)) if a != b), min(len(want), len(got)))
        fld = "number-of-draws"
        if i < len(want) and i < len(got):
            fld = next(k for k in ("k", "ns", "init", "ow", "ret") if want[i][k] != got[i][k])
        tally.add("%s:sample-call:%s" % (site, fld), "the sequence of nn_state.sample calls differs from the schedule",
                  dict(info, draw=i + 1, expected=want[i] if i < len(want) else None,
                       got=got[i] if i < len(got) else None, expected_draws=len(want), got_draws=len(got)), size)
        ok = False
    # chain continuity by content; the user's buffer
    for i, c in enumerate(out["calls"]):
        exp_from = (1 if cfg["L"] > 0 else 0) if i == 0 else out["calls"][i - 1]["to"]
        if c["from"] != exp_from:
            tally.add(site + ":continuity", "a draw does not start from the states the previous draw ended in",
                      dict(info, draw=i + 1, call=c), size)
            ok = False
    # a draw of zero Gibbs steps (burn_in = 0 or steps = 0) leaves the chains where they are
    for i, c in enumerate(out["calls"]):
        if c["k"] == 0 and c["from"] != 0 and c["to"] != c["from"]:
            tally.add(site + ":zero-steps-moved-the-chains", "a draw with k = 0 Gibbs steps returned other states than it started from",
                      dict(info, draw=i + 1, call=c), size)
            ok = False
    if cfg["L"] > 0 and cfg.get("conv"):
        if not out["user_same"]:
            tally.add(site + ":user-buffer:overwritten", "a buffer that had to be converted was modified", info, size)
            ok = False
    elif cfg["L"] > 0:
        if cfg["ow"] and not out["user_is_last"]:
            tally.add(site + ":user-buffer:not-overwritten", "overwrite=True but initial_state does not hold the final chain states", info, size)
            ok = False
        if not cfg["ow"] and not out["user_same"]:
            tally.add(site + ":user-buffer:overwritten", "overwrite=False but initial_state was modified", info, size)
            ok = False
    return ok


# ---------------------------------------------------------------------------
# code -> spec: traces for TraceStats.tla

def fixed(x):
    return int(round(x * 1e6))


def to_trace(cfg, out, n):
    """One observation -> one TraceStats line (cfg carries L and nobs)."""
    ev = [dict(e="Call", kind=cfg["kind"], nobs=cfg["nobs"], S=cfg["S"], C=cfg["C"], burn=cfg["burn"],
               steps=cfg["steps"], L=cfg["L"], ow=cfg["ow"], conv=bool(cfg.get("conv", False)))]
    for c, v in zip(out["calls"], out["vals"]):
        ev.append(dict(c, e="Draw", vals=v))
    N = sum(len(v[0]) for v in out["vals"])
    res = []
    for r in out["res"]:
        if N >= 2:
            res.append(dict(mean=fixed(r["mean"]), var=fixed(r["variance"]), se=fixed(r["std_error"]),
                            count=int(r["num_samples"])))
        else:      # the variance of a single sample does not exist: not compared
            res.append(dict(mean=fixed(r["mean"]), var=0, se=0, count=int(r["num_samples"])))
    ev.append(dict(e="Result", ucont=out["ucont"], res=res))
    return dict(n=n, ev=ev)


_INT = lambda x: isinstance(x, int) and not isinstance(x, bool)  # noqa: E731
_BOOL = lambda x: isinstance(x, bool)  # noqa: E731
_CALL = dict(kind=lambda x: x in ("obs", "sys"), nobs=_INT, S=_INT, C=_INT, burn=_INT, steps=_INT, L=_INT, ow=_BOOL)
_DRAW = {"k": _INT, "ns": _INT, "init": _INT, "ow": _BOOL, "ret": _INT, "from": _INT, "to": _INT,
         "vals": lambda v: isinstance(v, list) and all(isinstance(o, list) and all(_INT(y) for y in o) for o in v)}
_RES = dict(mean=_INT, var=_INT, se=_INT, count=_INT)


def malformed(line):
    """Why a line is not even shaped like a TraceStats trace (the trace spec is total only on
    well-shaped lines), or None.  Also guards TLC's 32-bit integers."""
    ev = line.get("ev")
    if not _INT(line.get("n")) or not isinstance(ev, list) or len(ev) < 2:
        return "line"
    if set(ev[0]) - {"conv"} != set(_CALL) | {"e"} or ev[0]["e"] != "Call" or not all(f(ev[0][k]) for k, f in _CALL.items()) \
            or not _BOOL(ev[0].get("conv", False)):
        return "Call"
    if ev[0]["nobs"] < 1 or ev[0]["S"] < 1:
        return "Call"
    for e in ev[1:-1]:
        if set(e) != set(_DRAW) | {"e"} or e["e"] != "Draw" or not all(f(e[k]) for k, f in _DRAW.items()):
            return "Draw"
    r = ev[-1]
    if set(r) != {"e", "ucont", "res"} or r["e"] != "Result" or not _INT(r["ucont"]) or not isinstance(r["res"], list):
        return "Result"
    for x in r["res"]:
        if not isinstance(x, dict) or set(x) != set(_RES) or not all(f(x[k]) for k, f in _RES.items()):
            return "Result"
        if max(abs(x[k]) for k in _RES) > 10 ** 8:
            return "Result"
    return None


def oversize(line):
    n, ys = line["n"], [y for e in line["ev"][1:-1] for o in e["vals"] for y in o]
    N = sum(len(e["vals"][0]) if e["vals"] else 0 for e in line["ev"][1:-1])
    m = max([abs(y) for y in ys] + [1])
    return (N, n, m) if (N * N * m * m > INT32 or N * N * n * n > INT32 // 8) else None


def int32_guard(line):
    big = oversize(line)
    if big:
        N, n, m = big
        raise common.MachineryError("trace too large for TLC's 32-bit integers (N=%d, n=%d, |y|<=%d)" % (N, n, m))


def validate_traces(lines, timeout=1800):
    """Returns (tlc result, [accepted], [matched events])."""
    for ln in lines:
        if malformed(ln) is None:
            int32_guard(ln)
    d = tempfile.mkdtemp(prefix="verif-stats-")
    try:
        path = os.path.join(d, "traces.ndjson")
        with open(path, "w") as fh:
            for ln in lines:
                fh.write(json.dumps(ln) + "\n")
        res = tlc.run("TraceStats", constants=dict(MaxLen=1, MaxS=1, MaxC=1, MaxL=1, MaxObs=1),
                      defs={"Vals": "{0}", "Ks": "{0}"}, init="TInit", next="TNext", constraints=["Track"],
                      postcondition="Verdicts", invariants=SCHED_INV, workers=1, timeout=timeout, heap="2g",
                      env={"TRACE_FILE": path})
    finally:
        shutil.rmtree(d, ignore_errors=True)
    verdict = {e["tid"]: e for e in res.exports if isinstance(e, dict) and "tid" in e}
    acc, matched = [], []
    for i in range(1, len(lines) + 1):
        v = verdict.get(i)
        if v is None:
            raise common.MachineryError("no verdict for trace %d\n%s" % (i, res.raw[-3000:]))
        acc.append(v["matched"] == v["need"])
        matched.append(v["matched"])
    return res, acc, matched


# ---------------------------------------------------------------------------
# re-running a stored failing input (./check C13 --replay file)

def rerun(repro):
    """Returns (tally of failures against the working tree, reproducer lines)."""
    import warnings
    t = Tally()
    with warnings.catch_warnings():
        warnings.simplefilter("ignore")
        if repro["site"] == "merge":
            xs, parts = repro["xs"], repro["parts"]
            merge_case(t, dict(xs=xs, parts=parts))
            lines = ["import torch", "from qucumber.observables.utils import _update_statistics",
                     "xs, parts = %r, %r   # dataset, block lengths; expected: one-pass mean/unbiased variance/length" % (xs, parts),
                     "run, at = (0.0, 0.0, 0), 0",
                     "for p in parts:",
                     "    v, m = torch.var_mean(torch.tensor(xs[at:at + p], dtype=torch.double)); at += p",
                     "    run = _update_statistics(*run, m.item(), v.item(), p); print(run)"]
            return t, lines
        cfg = repro["cfg"]
        kind, n, sseed = repro["state"]
        st = make_state(kind, n, sseed)
        obs_list = make_obs(repro["obs"])
        names = [OBS[i][0] for i in repro["obs"]]
        user = user_buffer(cfg["L"], n, repro["seed"], cfg.get("conv", False))
        torch.manual_seed(repro["seed"])
        out = real_call(cfg, st, obs_list, user)
        ok = check_numbers(t, "replay", cfg, names, out, n)
        if out["error"] is None and ok:
            ln = to_trace(cfg, out, n)
            why = malformed(ln)
            if why:
                t.add("trace:malformed:" + why, "no counterpart in the specification", dict(line=ln))
            elif oversize(ln) and len(out["calls"]) != -(-cfg["S"] // chains_of(cfg)):
                t.add("trace:rejected:Draw", "the call made %d draws, the schedule ceil(S / C') has %d"
                      % (len(out["calls"]), -(-cfg["S"] // chains_of(cfg))), dict(cfg=cfg))
            else:
                _, acc, matched = validate_traces([ln])
                if not acc[0]:
                    e = ln["ev"][matched[0]]
                    t.add("trace:rejected:" + e["e"], "TraceStats.tla rejects the call at its %s event" % e["e"],
                          dict(cfg=cfg, next_event={k: v for k, v in e.items() if k != "vals"}))
        cls = dict(positive="PositiveWaveFunction", complex="ComplexWaveFunction", density="DensityMatrix")[kind]
        lines = ["import torch; from qucumber.nn_states import %s; from qucumber.observables import *" % cls,
                 "torch.manual_seed(%d); st = %s(%s, gpu=False)" % (sseed, cls, ", ".join([str(n)] * (3 if kind == "density" else 2))),
                 "obs = %s   # harness/stats_run.py OBS" % names,
                 "init = %s" % ("None" if user is None else "torch.randint(0, 2, (%d, %d)).double()" % (cfg["L"], n)),
                 "<obs or System(*obs)>.statistics(st, %d, num_chains=%d, burn_in=%d, steps=%d, initial_state=init, overwrite=%s)"
                 % (cfg["S"], cfg["C"], cfg["burn"], cfg["steps"], cfg["ow"])]
        return t, lines
