"""Development driver for the ext_auxcb extension (auxiliary callbacks): not a property check of its own."""
import common
import ext_auxcb


def run(tier, seed):
    chk = common.Check("XAUX", tier, seed)
    ext_auxcb.run(chk, tier, seed)
    return chk.finish()


if __name__ == "__main__":
    import sys
    raise SystemExit(run(sys.argv[1] if len(sys.argv) > 1 else "quick", int(sys.argv[2]) if len(sys.argv) > 2 else 0))
