"""C03, code -> spec for the parameter layout: what the real vector_to_grads writes where, and what the flat
read-back of parameters set BY NAME is, validated by spec/TraceLayout.tla (public functions only)."""
import copy
import json
import os
import shutil
import tempfile

import torch

import common
import tlc

common.import_qucumber()
from qucumber.rbm import BinaryRBM, PurificationRBM  # noqa: E402
from qucumber.nn_states import PositiveWaveFunction, ComplexWaveFunction, DensityMatrix  # noqa: E402
from qucumber.utils.gradients_utils import vector_to_grads  # noqa: E402


def networks(rng, n):
    """network objects as a user meets them: bare RBMs and the networks inside the three state types"""
    out = []
    for i in range(n):
        nv, nh, na = rng.randint(1, 5), rng.randint(1, 5), rng.randint(1, 4)
        how = i % 5
        if how == 0:
            out.append((("binary", nv, nh, 0), BinaryRBM(nv, nh, gpu=False)))
        elif how == 1:
            out.append((("purif", nv, nh, na), PurificationRBM(nv, nh, na, gpu=False)))
        elif how == 2:
            out.append((("binary", nv, nh, 0), PositiveWaveFunction(nv, nh, gpu=False).rbm_am))
        elif how == 3:
            s = ComplexWaveFunction(nv, nh, gpu=False)
            out.append((("binary", nv, nh, 0), rng.choice([s.rbm_am, s.rbm_ph])))
        else:
            s = DensityMatrix(nv, nh, na, gpu=False)
            out.append((("purif", nv, nh, na), rng.choice([s.rbm_am, s.rbm_ph])))
    return out


def offsets(arch):
    kind, nv, nh, na = arch
    if kind == "binary":
        return {"weights": 0, "visible_bias": nh * nv, "hidden_bias": nh * nv + nv}
    return {"weights_W": 0, "weights_U": nh * nv, "visible_bias": nh * nv + na * nv, "hidden_bias": nh * nv + na * nv + nv,
            "aux_bias": nh * nv + na * nv + nv + nh}


def record(arch, rbm):
    npar = sum(p.numel() for p in rbm.parameters())
    flat = torch.arange(1, npar + 1, dtype=torch.double)
    vector_to_grads(flat, rbm.parameters())
    ev = []
    for name, p in rbm.named_parameters():            # same registration order as parameters()
        ev.append(dict(name=name, shape=list(p.shape), vals=[int(x) for x in p.grad.reshape(-1).tolist()]))
    # the other direction: every entry set BY NAME to the flat index the specification gives it, then read back flat
    nv = arch[1]
    off = offsets(arch)
    with torch.no_grad():
        for name, p in rbm.named_parameters():
            if name not in off:
                return dict(arch=list(arch), ev=ev, back=[]), "unknown parameter name %r" % name
            if p.dim() == 1:
                p.copy_(torch.tensor([off[name] + i + 1 for i in range(p.shape[0])], dtype=p.dtype))
            else:
                p.copy_(torch.tensor([[off[name] + r * nv + i + 1 for i in range(p.shape[1])] for r in range(p.shape[0])],
                                     dtype=p.dtype))
    back = torch.nn.utils.parameters_to_vector(rbm.parameters())
    return dict(arch=list(arch), ev=ev, back=[int(x) for x in back.tolist()]), None


def validate(lines, timeout=600):
    d = tempfile.mkdtemp(prefix="verif-layout-")
    try:
        path = os.path.join(d, "traces.ndjson")
        with open(path, "w") as fh:
            for ln in lines:
                fh.write(json.dumps(ln) + "\n")
        res = tlc.run("TraceLayout", defs={"Archs": "{}"}, init="TInit", next="TNext", constraints=["Track"],
                      postcondition="Verdicts", invariants=["LayoutIsNamedSlots", "Exhaustive"], workers=1,
                      timeout=timeout, env={"TRACE_FILE": path})
    finally:
        shutil.rmtree(d, ignore_errors=True)
    verdict = {e["tid"]: e for e in res.exports if isinstance(e, dict) and "tid" in e}
    acc = []
    for i in range(1, len(lines) + 1):
        v = verdict.get(i)
        if v is None:
            raise common.MachineryError("no verdict for layout trace %d\n%s" % (i, res.raw[-2000:]))
        acc.append((v["matched"] == v["need"], v["matched"]))
    return res, acc


def phase(chk, tier, rng):
    res = tlc.run("Layout", defs={"Archs": '{<<"binary", nv, nh, 0>> : nv \\in 1..4, nh \\in 1..4} \\cup '
                                           '{<<"purif", nv, nh, na>> : nv \\in 1..3, nh \\in 1..3, na \\in 1..3}'},
                  invariants=["TypeOK", "LayoutIsNamedSlots", "Exhaustive"], workers=4, timeout=600)
    chk.add_tlc(res, "Layout.tla (vector_to_grads loop, all architectures <= 4x4 / 3x3x3)")
    if res.violation:
        chk.violation("spec:Layout:" + str(res.violation), dict(tlc=res.raw[-3000:]))
        return
    lines, metas = [], []
    for arch, rbm in networks(rng, 40 if tier == "quick" else 400):
        ln, prob = record(arch, rbm)
        if prob:
            chk.violation("trace:layout:" + prob.split()[0], dict(arch=arch, problem=prob))
            continue
        lines.append(ln)
        metas.append(arch)
    donor = next(l for l in lines if len(l["ev"]) == 5 and l["arch"][1] >= 2 and l["arch"][2] >= 2 and l["arch"][1] != l["arch"][2])
    c1 = copy.deepcopy(donor)
    c1["ev"][1], c1["ev"][2] = c1["ev"][2], c1["ev"][1]                   # U and b exchanged
    c2 = copy.deepcopy(donor)
    w = c2["ev"][0]
    nh, nv = w["shape"]
    w["vals"] = [w["vals"][(k % nh) * nv + (k // nh)] for k in range(nh * nv)]     # weights written column-major
    c3 = copy.deepcopy(donor)
    c3["back"][0], c3["back"][-1] = c3["back"][-1], c3["back"][0]
    ctl = [("layout trace with two parameters exchanged accepted", c1),
           ("layout trace with the weight matrix in another order accepted", c2),
           ("layout trace with a permuted flat read-back accepted", c3)]
    tres, acc = validate(lines + [c[1] for c in ctl])
    chk.add_tlc(tres, "TraceLayout.tla (%d networks)" % len(lines))
    if tres.violation:
        chk.violation("trace:layout:invariant:" + str(tres.violation), dict(tlc=tres.raw[-3000:]))
    for j, (name, _) in enumerate(ctl):
        chk.control(not acc[len(lines) + j][0], name)
    for i, (ok, matched) in enumerate(acc[:len(lines)]):
        if ok:
            chk.traces += 1
            chk.nontriv(("layout", tuple(metas[i])))
        else:
            ev = lines[i]["ev"]
            chk.violation("trace:layout:rejected:%s" % (ev[matched]["name"] if matched < len(ev) else "read-back"),
                          dict(arch=metas[i], matched_prefix=matched,
                               next_event=ev[matched] if matched < len(ev) else dict(back=lines[i]["back"])))
