"""TLC side of C04 / C19: seeded input families handed to the specifications as
constants, the model-checking runs, and generic (property-agnostic) Gaussian-integer
helpers for the comparisons.  No QuCumber semantics here: what a rotation is comes
from spec/Unitaries.tla, KronSweep.tla, Expand.tla through TLC's exports."""
import random

import tlc

XYZ = '{"X", "Y", "Z"}'
# the recursive sums (GSumUpTo over 2^n terms, nested for matrices) need a deeper Java stack than the default
JAVA_ENV = {"JAVA_TOOL_OPTIONS": "-Xss64m"}


# ---------------------------------------------------------------- seeded inputs
def _g(rng, nonzero=True, lim=3):
    while True:
        a = (rng.randint(-lim, lim), rng.randint(-lim, lim))
        if not nonzero or (a[0] != 0 and a[1] != 0):
            return a


def gen_psi(rng, n, count):
    """generic Gaussian-integer vectors, every entry with non-zero real and imaginary part"""
    return [[_g(rng) for _ in range(2 ** n)] for _ in range(count)]


def gen_rho(rng, n, count):
    """Hermitian matrices with non-zero imaginary off-diagonals (rho != rho^T)"""
    out = []
    for _ in range(count):
        N = 2 ** n
        m = [[None] * N for _ in range(N)]
        for i in range(N):
            m[i][i] = (rng.randint(-3, 3), 0)
            for j in range(i + 1, N):
                a = _g(rng)
                m[i][j] = a
                m[j][i] = (a[0], -a[1])
        out.append(m)
    return out


def gen_gram(rng, n, count, cols=2):
    """2^n x cols Gaussian-integer matrices A (rho = A A^H is PSD); first column generic"""
    out = []
    while len(out) < count:
        A = [[_g(rng, lim=2) if c == 0 or rng.random() < 0.7 else (0, 0) for c in range(cols)] for _ in range(2 ** n)]
        # InputsOK (KronSweep / Expand) wants rho = A A^H different from its transpose: some off-diagonal
        # entry with a non-zero imaginary part (a real symmetric rho cannot tell rho from rho^T)
        if any(sum(gmul(A[i][c], gconj(A[j][c]))[1] for c in range(cols)) != 0
               for i in range(2 ** n) for j in range(i + 1, 2 ** n)):
            out.append(A)
    return out


def family_defs(seed, nmax, counts=(2, 2, 2), beyond=0):
    """seeded generic inputs for n = 1..nmax (counts per family) and one per family for n up to nmax+beyond"""
    rng = random.Random(seed * 7919 + 4)

    def case(f, cnt):
        return "CASE " + " [] ".join(
            "m = %d -> {%s}" % (n, ", ".join(tlc.tla_value(v) for v in f(rng, n, cnt if n <= nmax else 1)))
            for n in range(1, nmax + beyond + 1)) + " [] OTHER -> {}"

    return {"GenPsi(m)": case(gen_psi, counts[0]), "GenRho(m)": case(gen_rho, counts[1]),
            "GenGram(m)": case(gen_gram, counts[2])}


def strings(alphabet, lo, hi):
    return "UNION {Strings(%s, m) : m \\in %d..%d}" % (alphabet, lo, hi)


def tla_strings(strs):
    return "{" + ", ".join(tlc.tla_value(list(s)) for s in strs) + "}"


# ---------------------------------------------------------------- generic Gaussian-integer algebra
def gmul(a, b):
    return (a[0] * b[0] - a[1] * b[1], a[0] * b[1] + a[1] * b[0])


def gconj(a):
    return (a[0], -a[1])


def gadd(a, b):
    return (a[0] + b[0], a[1] + b[1])


def tup(v):
    """nested JSON arrays -> nested tuples (pairs become hashable)"""
    return tuple(tup(e) for e in v) if isinstance(v, (list, tuple)) else v


def cap_violations(chk, per_key=2):
    """common.Check.finish() writes / prints only the first 20 violations; a frequent key would hide the
    others.  Forward at most `per_key` violations per key (smallest cases come first) and keep the full
    counts in the evidence."""
    counts = chk.extra.setdefault("violation_counts", {})
    forward = chk.violation

    def violation(key, detail):
        counts[key] = counts.get(key, 0) + 1
        if counts[key] <= per_key:
            forward(key, detail)

    chk.violation = violation
    return chk
