"""C16, code -> spec: programs of ObsExpr.tla's stack machine executed with real Python operators on real
observables; after every operation the value on top of the operand stack is projected (class tree) and the whole
run is validated step by step by spec/TraceObsExpr.tla."""
import copy
import json
import os
import shutil
import tempfile
from fractions import Fraction

import numpy as np

import common
import tlc

common.import_qucumber()
from qucumber.observables import SigmaZ, SigmaX, NeighbourInteraction  # noqa: E402
from qucumber.observables.observable import SumObservable, ProdObservable, ObservableBase  # noqa: E402

BOUND = 4096
SCALARS = [Fraction(-3), Fraction(-1), Fraction(0), Fraction(1, 2), Fraction(1), Fraction(2), Fraction(3, 4)]


def rnd_tree(rng, depth, want_obs=True):
    """syntax tree in ObsExpr.tla's records; non-numeric atoms only next to an observable operand"""
    if depth <= 1 or rng.random() < 0.2:
        if want_obs:
            return dict(t="leaf", n=rng.choice("ABC"))
        q = rng.choice(SCALARS)
        return dict(t="num", q=[q.numerator, q.denominator])
    k = rng.random()
    if k < 0.15:
        return dict(t="neg", a=rnd_tree(rng, depth - 1, want_obs))
    if not want_obs:                                   # a numeric subexpression: plain Python arithmetic
        return dict(t=rng.choice(["add", "sub", "mul"]), l=rnd_tree(rng, depth - 1, False), r=rnd_tree(rng, depth - 1, False))
    op = rng.choice(["add", "add", "sub", "sub", "mul", "mul"])
    r = rng.random()
    if r < 0.04:                                       # a non-numeric operand: TypeError
        bad = dict(t="bad", k=rng.choice(["str", "none"]))
        o = rnd_tree(rng, depth - 1, True)
        return dict(t=op, l=o, r=bad)          # (the machine loads a non-numeric atom only on top of an observable operand)
    if op == "mul":
        if r < 0.1:                                    # observable * observable: ValueError
            return dict(t="mul", l=rnd_tree(rng, depth - 1, True), r=rnd_tree(rng, depth - 1, True))
        o, s = rnd_tree(rng, depth - 1, True), rnd_tree(rng, min(2, depth - 1), False)
        return dict(t="mul", l=o, r=s) if rng.random() < 0.5 else dict(t="mul", l=s, r=o)
    a = rnd_tree(rng, depth - 1, True)
    b = rnd_tree(rng, depth - 1, rng.random() < 0.7)
    return dict(t=op, l=a, r=b) if rng.random() < 0.5 else dict(t=op, l=b, r=a)


def postfix(e, out):
    if e["t"] in ("leaf", "num", "bad"):
        out.append(dict(op="load", atom=e))
    elif e["t"] == "neg":
        postfix(e["a"], out)
        out.append(dict(op="neg"))
    else:
        postfix(e["l"], out)
        postfix(e["r"], out)
        out.append(dict(op="bin", o=e["t"]))
    return out


def project(v, names):
    if isinstance(v, SumObservable):
        return dict(c="Sum", left=project(v.left, names), right=project(v.right, names))
    if isinstance(v, ProdObservable):
        return dict(c="Prod", left=project(v.left, names), right=project(v.right, names))
    if isinstance(v, ObservableBase):
        return dict(c="Leaf", n=names[id(v)])
    if isinstance(v, (bool, int, float, np.floating, np.integer)):
        q = Fraction(float(v)) if not isinstance(v, (bool, int, np.integer)) else Fraction(int(v))
        return dict(c="Num", q=[q.numerator, q.denominator])
    if isinstance(v, str):
        return dict(c="Bad", k="str")
    if v is None:
        return dict(c="Bad", k="none")
    return dict(c="Unknown", r=repr(type(v)))


def too_big(p):
    if p["c"] == "Num":
        return abs(p["q"][0]) > BOUND or p["q"][1] > BOUND
    return any(too_big(p[k]) for k in ("left", "right") if k in p)


def run_program(rng, ops, policy):
    leaves = {"A": SigmaZ(), "B": SigmaX(), "C": NeighbourInteraction(c=1)}
    names = {id(o): n for n, o in leaves.items()}
    stack, ev = [], []

    def scalar(q):
        f = Fraction(q[0], q[1])
        kind = policy[len(ev) % len(policy)]
        if f.denominator == 1 and kind == "int":
            return int(f)
        if f in (0, 1) and kind == "bool":
            return bool(f)
        return np.float64(float(f)) if kind == "np" else float(f)
    for o in ops:
        try:
            if o["op"] == "load":
                a = o["atom"]
                stack.append(leaves[a["n"]] if a["t"] == "leaf" else scalar(a["q"]) if a["t"] == "num"
                             else ("text" if a["k"] == "str" else None))
            elif o["op"] == "neg":
                stack.append(-stack.pop())
            else:
                r, l = stack.pop(), stack.pop()
                stack.append(l + r if o["o"] == "add" else l - r if o["o"] == "sub" else l * r)
        except (TypeError, ValueError) as ex:
            ev.append(dict(o, top=dict(c="Err", x=type(ex).__name__)))
            return ev, True
        top = project(stack[-1], names)
        if too_big(top):
            return None, False                      # coefficients outside the specification's integer range: not a case
        ev.append(dict(o, top=top))
    return ev, True


def validate(lines, timeout=900):
    d = tempfile.mkdtemp(prefix="verif-obsexpr-")
    try:
        path = os.path.join(d, "traces.ndjson")
        with open(path, "w") as fh:
            for ln in lines:
                fh.write(json.dumps(ln) + "\n")
        res = tlc.run("TraceObsExpr", constants={"MaxDepth": 12, "MaxStack": 8, "Bound": 20000, "Variant": "code"},
                      defs={"Leaves": '<<"A", "B", "C">>', "Scalars": "{}", "Bads": '{"str", "none"}', "FirstAtoms": "{}"},
                      init="TInit", next="TNext", constraints=["Track"], postcondition="Verdicts",
                      invariants=["TRejectedIffNonLinear", "TOverloadsAreArithmetic", "TBuiltShape"], workers=1,
                      timeout=timeout, env={"TRACE_FILE": path})
    finally:
        shutil.rmtree(d, ignore_errors=True)
    verdict = {e["tid"]: e for e in res.exports if isinstance(e, dict) and "tid" in e}
    acc = []
    for i in range(1, len(lines) + 1):
        v = verdict.get(i)
        if v is None:
            raise common.MachineryError("no verdict for expression trace %d\n%s" % (i, res.raw[-2500:]))
        acc.append((v["matched"] == v["need"], v["matched"]))
    return res, acc


POLICIES = [("int", "float"), ("float",), ("np", "int"), ("int", "bool", "np"), ("np",)]


def phase(chk, tier, rng):
    lines = []
    want = 60 if tier == "quick" else 1500
    tries = 0
    while len(lines) < want and tries < 20 * want:
        tries += 1
        ops = postfix(rnd_tree(rng, rng.randint(3, 8)), [])
        if not 3 <= len(ops) <= 40:
            continue
        ev, ok = run_program(rng, ops, POLICIES[tries % len(POLICIES)])
        if ev is None:
            continue
        lines.append(dict(ev=ev))
    donor = next(l for l in lines if len(l["ev"]) >= 5 and l["ev"][-1]["top"]["c"] in ("Sum", "Prod"))
    c1 = copy.deepcopy(donor)

    def bump(p):                                     # first scalar found in the final projection
        if p["c"] == "Num":
            p["q"] = [p["q"][0] + p["q"][1], p["q"][1]]
            return True
        return any(bump(p[k]) for k in ("left", "right") if k in p)
    has_num = bump(c1["ev"][-1]["top"])
    c2 = copy.deepcopy(donor)
    c2["ev"][-1]["top"] = dict(c="Err", x="ValueError")             # a legal combination recorded as refused
    c3 = copy.deepcopy(next(l for l in lines if l["ev"][-1]["top"]["c"] == "Err"))
    c3["ev"][-1]["top"] = dict(c="Leaf", n="A")                     # a refused combination recorded as accepted
    ctl = [("expression trace with a refused legal combination accepted", c2),
           ("expression trace with an accepted non-linear combination accepted", c3)]
    if has_num:
        ctl.append(("expression trace with a changed coefficient accepted", c1))
    res, acc = validate(lines + [c[1] for c in ctl])
    chk.add_tlc(res, "TraceObsExpr.tla (%d programs)" % len(lines))
    if res.violation:
        chk.violation("trace:obsexpr:invariant:" + str(res.violation), dict(tlc=res.raw[-3000:]))
    for j, (name, _) in enumerate(ctl):
        chk.control(not acc[len(lines) + j][0], name)
    depth = 0
    for i, (ok, matched) in enumerate(acc[:len(lines)]):
        if ok:
            chk.traces += 1
            chk.nontriv(("obsexpr-trace", len(lines[i]["ev"]), lines[i]["ev"][-1]["top"]["c"]))
            depth = max(depth, len(lines[i]["ev"]))
        else:
            ev = lines[i]["ev"]
            chk.violation("trace:obsexpr:rejected:%s" % ev[min(matched, len(ev) - 1)]["op"],
                          dict(matched_prefix=matched, program=[{k: v for k, v in e.items() if k != "top"} for e in ev],
                               recorded=ev[min(matched, len(ev) - 1)]["top"]))
    chk.extra["expression_traces_longest_program"] = depth
