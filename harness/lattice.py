"""Lattice points for the exact specifications: generation (seeded), the points file TLC
reads, and setting the parameters of real QuCumber models to t * ln(B)."""
import json
import math
import os
import random
import tempfile

import torch

import common

qucumber = common.import_qucumber()
from qucumber.nn_states import PositiveWaveFunction, ComplexWaveFunction, DensityMatrix  # noqa: E402


def nz(rng, mag):
    return rng.choice([-1, 1]) * rng.randint(1, mag)


def random_net(rng, nv, nh, mag):
    return dict(W=[[nz(rng, mag) for _ in range(nv)] for _ in range(nh)],
                b=[nz(rng, mag) for _ in range(nv)], c=[nz(rng, mag) for _ in range(nh)])


# extreme=True: the far corner of parameter space - visible biases all strongly negative and the other
# parameters small, so that some basis states carry an unnormalised weight far below any fixed floor
# (1e-8, 1e-12, float32 eps ...) while every quantity stays representable
def random_point(rng, nvmax=5, nhmax=6, budget=1700, extreme=False, huge=False):
    """all parameters non-zero; magnitudes up to ~30 real units (43 lattice units for B = 2);
    the sum of |t| stays below the power-table bound"""
    if huge:
        # the opposite corner: visible biases all strongly positive, so that unnormalised probabilities reach
        # e^400 .. e^600 (products of two of them overflow, each of them does not); needs TMax >= 1000
        nv, nh = rng.randint(2, min(3, nvmax)), 1
        B = rng.choice([2, 3])
        total = int(rng.randint(400, 600) / math.log(B))
        am = random_net(rng, nv, nh, 2)
        am["b"] = [total // nv + rng.randint(0, 3) for _ in range(nv)]
        return dict(nv=nv, nh=nh, B=B, am=am, ph=random_net(rng, nv, nh, 2))
    if extreme:
        nv, nh = rng.randint(2, nvmax), rng.randint(1, min(2, nhmax))
        B = rng.choice([2, 3])
        npar = nv * nh + nv + nh
        top = 43 if B == 2 else 27
        m = max(2, min(top, (budget - 2 * (npar - nv)) // nv))
        am = random_net(rng, nv, nh, 2)
        am["b"] = [-rng.randint(max(1, (2 * m) // 3), m) for _ in range(nv)]
        return dict(nv=nv, nh=nh, B=B, am=am, ph=random_net(rng, nv, nh, 2))
    nv, nh = rng.randint(1, nvmax), rng.randint(1, nhmax)
    B = rng.choice([2, 3])
    top = 43 if B == 2 else 27
    mag = rng.choice([1, 2, 3, 5, 9, top])
    npar = nv * nh + nv + nh
    mag = max(1, min(mag, budget // npar))
    return dict(nv=nv, nh=nh, B=B, am=random_net(rng, nv, nh, mag), ph=random_net(rng, nv, nh, mag))


class PointsFile:
    def __init__(self, points):
        self.dir = tempfile.mkdtemp(prefix="verif-pts-")
        self.path = os.path.join(self.dir, "points.ndjson")
        with open(self.path, "w") as fh:
            for p in points:
                fh.write(json.dumps(p) + "\n")

    def close(self):
        import shutil
        shutil.rmtree(self.dir, ignore_errors=True)


# "For every parameter setting": a user reaches a parameter setting on a LIVE object too - by in-place
# writes, through .data, by reinitialising first, by installing new Parameter objects.  With REUSE on, the
# model objects are kept per architecture and re-parameterised by these routes in rotation, so that
# anything remembered from an earlier setting (a cached normalisation, a stale buffer) shows up.
REUSE = False
_POOL = {}
_ROUTE = [0]
_VISIT = [0]


def _shape_ok(rbm, name, value):
    """A model constructed for an architecture has parameters of that architecture's shapes; if it has not, no
    parameter setting of the architecture can be installed and the constructor is at fault, not the check."""
    import common
    have = tuple(getattr(rbm, name).shape)
    if have != tuple(value.shape):
        raise common.CodeFault("construction:parameter-shape:%s.%s" % (type(rbm).__name__, name),
                               "a model built for nv=%s nh=%s%s has %s of shape %s, the architecture requires %s"
                               % (getattr(rbm, "num_visible", "?"), getattr(rbm, "num_hidden", "?"),
                                  (" na=%s" % rbm.num_aux) if hasattr(rbm, "num_aux") else "", name, list(have),
                                  list(value.shape)))


def _assign(rbm, name, value):
    _shape_ok(rbm, name, value)
    route = (_ROUTE[0] + _ROUTE[0] // 12) % 4        # (the extra term breaks the period 12 = lcm(3, 6, 4) of the wavefunctions)
    _ROUTE[0] += 1
    p = getattr(rbm, name)
    with torch.no_grad():
        if route == 0:
            p.copy_(value)                                   # in place on the Parameter
        elif route == 1:
            p.data.copy_(value)                              # through .data (no autograd version bump)
        elif route == 2:
            p.data = value.clone()                           # new storage behind the same Parameter
        else:
            setattr(rbm, name, torch.nn.Parameter(value.clone(), requires_grad=False))   # new Parameter object


def _pooled(key, make):
    if not REUSE:
        return make()
    st = _POOL.get(key)
    if st is None:
        st = _POOL[key] = make()
    else:
        # (counters of their own: the number of assignments per setting is a multiple of 3 for the wavefunctions,
        # so _ROUTE itself would ALWAYS reinitialise here and no in-place route would ever meet a used object)
        _VISIT[0] += 1
        if _VISIT[0] % 2 == 0:
            _failed_call(st, _VISIT[0] // 2)
        if _VISIT[0] % 4 == 0:
            st.reinitialize_parameters()                     # new Parameter objects, then set below
    return st


def _failed_call(st, which):
    """A live object has also seen calls that failed (the user caught the exception and went on): a wrong width,
    an unknown basis letter in the middle of a batch, a refused request.  Whatever such a call left behind
    must not show in the next, legal evaluation."""
    import numpy as np
    nv = st.num_visible
    wide = torch.zeros(3, nv + 1, dtype=torch.double)
    rowsZ = torch.tensor([[(i >> j) & 1 for j in range(nv)] for i in range(6)], dtype=torch.double)
    # (the unknown letter sits in a row that sorts AFTER the X.. and Y.. rows, so that a grouped evaluation has
    # already processed some groups when it meets it)
    bad = np.array([["X"] + ["Z"] * (nv - 1), ["Y"] + ["Z"] * (nv - 1), ["Z"] * nv, ["Z"] * (nv - 1) + ["Q"],
                    ["Z"] * nv, ["X"] + ["Z"] * (nv - 1)])
    calls = [lambda: st.gradient(rowsZ, bases=bad), lambda: st.probability(wide), lambda: st.generate_hilbert_space(size=40),
             lambda: st.rbm_am.effective_energy_gradient(wide), lambda: st.sample(k=1, num_samples=-2),
             lambda: st.compute_exact_gradients(rowsZ, st.generate_hilbert_space(), bases_batch=bad),
             lambda: st.fit(rowsZ, epochs=1, pos_batch_size=2, input_bases=bad[:, :nv]),
             lambda: (st.psi if hasattr(st, "psi") else st.rho)(wide)]
    try:
        calls[which % len(calls)]()
    except Exception:      # noqa: BLE001 - the point is that the call fails
        pass


def pooled_rbm(nv, nh):
    """a bare BinaryRBM kept per architecture (see REUSE): it has been evaluated at the previous parameter setting
    when the next one is written into it"""
    from qucumber.rbm import BinaryRBM
    if not REUSE:
        return BinaryRBM(nv, nh, gpu=False)
    r = _POOL.get(("rbm", nv, nh))
    if r is None:
        r = _POOL[("rbm", nv, nh)] = BinaryRBM(nv, nh, gpu=False)
    else:
        _VISIT[0] += 1
        if _VISIT[0] % 4 == 0:
            r.initialize_parameters()
    return r


def set_net(rbm, net, B):
    lnB = math.log(B)
    if REUSE:
        _assign(rbm, "weights", torch.tensor(net["W"], dtype=torch.double) * lnB)
        _assign(rbm, "visible_bias", torch.tensor(net["b"], dtype=torch.double) * lnB)
        _assign(rbm, "hidden_bias", torch.tensor(net["c"], dtype=torch.double) * lnB)
        return
    with torch.no_grad():
        for nm, k in (("weights", "W"), ("visible_bias", "b"), ("hidden_bias", "c")):
            _shape_ok(rbm, nm, torch.tensor(net[k]))
        rbm.weights.copy_(torch.tensor(net["W"], dtype=torch.double) * lnB)
        rbm.visible_bias.copy_(torch.tensor(net["b"], dtype=torch.double) * lnB)
        rbm.hidden_bias.copy_(torch.tensor(net["c"], dtype=torch.double) * lnB)


_SCRATCH = [0]


def _scratch_spaces(s):
    """The enumerations of basis states the library hands out are the caller's tensors: every few states one caller
    uses them as scratch memory (as sample(..., initial_state=space, overwrite=True) would) - whatever the library
    computes afterwards, for this or any other state, must not be looking at them."""
    _SCRATCH[0] += 1
    if _SCRATCH[0] % 4 == 0:
        for k in range(1, s.num_visible + 1):
            s.generate_hilbert_space(k).fill_(0.5)
    return s


def positive_state(pt):
    s = _pooled(("positive", pt["nv"], pt["nh"]), lambda: PositiveWaveFunction(pt["nv"], pt["nh"], gpu=False))
    set_net(s.rbm_am, pt["am"], pt["B"])
    return _scratch_spaces(s)


_MODULE_ROT = [0]


def complex_state(pt, via_module=False):
    _MODULE_ROT[0] += 1
    if via_module or _MODULE_ROT[0] % 6 == 0:
        # the documented module= constructor: the user's RBM becomes the amplitude network, the phase
        # network is an independent copy of it that is then given its own parameters
        from qucumber.rbm import BinaryRBM
        rbm = BinaryRBM(pt["nv"], pt["nh"], gpu=False)
        set_net(rbm, pt["am"], pt["B"])
        s = ComplexWaveFunction(pt["nv"], module=rbm, gpu=False)
        set_net(s.rbm_ph, pt["ph"], pt["B"])
        return _scratch_spaces(s)
    s = _pooled(("complex", pt["nv"], pt["nh"]), lambda: ComplexWaveFunction(pt["nv"], pt["nh"], gpu=False))
    set_net(s.rbm_am, pt["am"], pt["B"])
    set_net(s.rbm_ph, pt["ph"], pt["B"])
    return _scratch_spaces(s)


_LAYOUT = [0]


def relayout(t):
    """the same values in another memory layout a caller may legitimately hold: contiguous, column-major
    storage, or a column slice of a wider array (rotating; values and shape are identical)"""
    if not REUSE or t.dim() != 2:
        return t
    _LAYOUT[0] += 1
    how = _LAYOUT[0] % 3
    if how == 1:
        return t.t().contiguous().t()
    if how == 2:
        wide = torch.zeros(t.shape[0], t.shape[1] + 2, dtype=t.dtype)
        wide[:, :t.shape[1]] = t
        return wide[:, :t.shape[1]]
    return t


def space(nv):
    return relayout(torch.tensor([[(k >> (nv - 1 - s)) & 1 for s in range(nv)] for k in range(2 ** nv)], dtype=torch.double))


# ---- purification RBM / density matrix -------------------------------------------------------
def random_purif_point(rng, nvmax=4, nhmax=4, namax=4, budget=1700, small=False, extreme=False, huge=False, strong=False):
    if huge:       # see random_point: diagonal entries of rho up to e^200 .. e^330
        pt = random_purif_point(rng, min(3, nvmax), 1, 1, budget, small=True)
        while pt["nv"] < 2:
            pt = random_purif_point(rng, min(3, nvmax), 1, 1, budget, small=True)
        total = int(rng.randint(200, 330) / math.log(pt["B"]))
        pt["b"] = [total // pt["nv"] + rng.randint(0, 3) for _ in range(pt["nv"])]
        return pt
    if extreme:
        pt = random_purif_point(rng, nvmax, min(2, nhmax), min(2, namax), budget, small=True)
        while pt["nv"] < 2 <= nvmax:
            pt = random_purif_point(rng, nvmax, min(2, nhmax), min(2, namax), budget, small=True)
        top = 43 if pt["B"] == 2 else 27
        npar = pt["nv"] * pt["nh"] + 2 * pt["nv"] * pt["na"] + pt["nv"] + pt["nh"] + 2 * pt["na"]
        m = max(2, min(top, (budget - 3 * (npar - pt["nv"])) // pt["nv"]))
        pt["b"] = [-rng.randint(max(1, (2 * m) // 3), m) for _ in range(pt["nv"])]
        return pt
    if strong and not small and rng.random() < 0.05:
        # a decoupled auxiliary unit: its row of U is EXACTLY zero in both networks (a pruned unit, weights from a small
        # discrete set) while its bias is not - the unit still contributes its factor 1 + e^d to every entry
        pt = random_purif_point(rng, nvmax, nhmax, max(2, namax), budget, small)
        while pt["na"] < 2:
            pt = random_purif_point(rng, nvmax, nhmax, max(2, namax), budget, small)
        k = rng.randrange(pt["na"])
        pt["u"][k] = [0] * pt["nv"]
        pt["um"][k] = [0] * pt["nv"]
        return pt
    if strong and not small and rng.random() < 0.04:
        # strong mixing: every auxiliary unit pulls the same way with a large coupling, so that the auxiliary
        # factor of rho is huge (Re Pi of several hundred) while every entry stays representable
        nv, nh, na, B = 4, 1, 3, 3
        u0 = lambda: rng.randint(11, 13)  # noqa: E731
        return dict(nv=nv, nh=nh, na=na, B=B, W=[[nz(rng, 2) for _ in range(nv)]], b=[-rng.randint(20, 27) for _ in range(nv)],
                    c=[nz(rng, 2)], u=[[u0() for _ in range(nv)] for _ in range(na)], dd=[u0() for _ in range(na)],
                    Wm=[[nz(rng, 3) for _ in range(nv)]], cm=[nz(rng, 3)],
                    um=[[nz(rng, 3) for _ in range(nv)] for _ in range(na)], bmm=[nz(rng, 3) for _ in range(nv)])
    nv, nh, na = rng.randint(1, nvmax), rng.randint(1, nhmax), rng.randint(1, namax)
    B = rng.choice([2, 3])
    top = 43 if B == 2 else 27
    mag = rng.choice([1, 2, 3, 5, 9, top]) if not small else 1
    npar = nv * nh + 2 * nv * na + nv + nh + 2 * na
    mag = max(1, min(mag, budget // npar))
    g = lambda: nz(rng, mag)  # noqa: E731
    h = lambda: nz(rng, max(1, mag // 2))  # noqa: E731   (U = 2u, d = 2dd)
    return dict(nv=nv, nh=nh, na=na, B=B,
                W=[[g() for _ in range(nv)] for _ in range(nh)], b=[g() for _ in range(nv)],
                c=[g() for _ in range(nh)], u=[[h() for _ in range(nv)] for _ in range(na)],
                dd=[h() for _ in range(na)],
                Wm=[[g() for _ in range(nv)] for _ in range(nh)], cm=[g() for _ in range(nh)],
                um=[[nz(rng, 3) for _ in range(nv)] for _ in range(na)], bmm=[nz(rng, 3) for _ in range(nv)])


def density_state(pt):
    _MODULE_ROT[0] += 1
    if _MODULE_ROT[0] % 6 == 0:
        # the documented module= constructor (see complex_state)
        from qucumber.rbm import PurificationRBM
        s = DensityMatrix(pt["nv"], module=PurificationRBM(pt["nv"], pt["nh"], pt["na"], gpu=False), gpu=False)
    else:
        s = _pooled(("density", pt["nv"], pt["nh"], pt["na"]), lambda: DensityMatrix(pt["nv"], pt["nh"], pt["na"], gpu=False))
    lnB = math.log(pt["B"])
    T = lambda x: torch.tensor(x, dtype=torch.double)  # noqa: E731
    vals = [(s.rbm_am, "weights_W", T(pt["W"]) * lnB), (s.rbm_am, "weights_U", T(pt["u"]) * (2 * lnB)),
            (s.rbm_am, "visible_bias", T(pt["b"]) * lnB), (s.rbm_am, "hidden_bias", T(pt["c"]) * lnB),
            (s.rbm_am, "aux_bias", T(pt["dd"]) * (2 * lnB)), (s.rbm_ph, "weights_W", T(pt["Wm"]) * lnB),
            (s.rbm_ph, "hidden_bias", T(pt["cm"]) * lnB), (s.rbm_ph, "weights_U", T(pt["um"]) * math.pi),
            (s.rbm_ph, "visible_bias", T(pt["bmm"]) * math.pi), (s.rbm_ph, "aux_bias", torch.zeros(pt["na"], dtype=torch.double))]
    for rbm, name, v in vals:
        if REUSE:
            _assign(rbm, name, v)
        else:
            _shape_ok(rbm, name, v)
            with torch.no_grad():
                getattr(rbm, name).copy_(v)
    return _scratch_spaces(s)


def rows(n):
    return [[(k >> (n - 1 - s)) & 1 for s in range(n)] for k in range(2 ** n)]
