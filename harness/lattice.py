"""Lattice points for the exact specifications: generation (seeded), the points file TLC
reads, and setting the parameters of real QuCumber models to t * ln(B)."""
import json
import math
import os
import random
import tempfile

import torch

import common

qucumber = common.import_qucumber()
from qucumber.nn_states import PositiveWaveFunction, ComplexWaveFunction, DensityMatrix  # noqa: E402


def nz(rng, mag):
    return rng.choice([-1, 1]) * rng.randint(1, mag)


def random_net(rng, nv, nh, mag):
    return dict(W=[[nz(rng, mag) for _ in range(nv)] for _ in range(nh)],
                b=[nz(rng, mag) for _ in range(nv)], c=[nz(rng, mag) for _ in range(nh)])


def random_point(rng, nvmax=5, nhmax=6, budget=1700):
    """all parameters non-zero; magnitudes up to ~30 real units (43 lattice units for B = 2);
    the sum of |t| stays below the power-table bound"""
    nv, nh = rng.randint(1, nvmax), rng.randint(1, nhmax)
    B = rng.choice([2, 3])
    top = 43 if B == 2 else 27
    mag = rng.choice([1, 2, 3, 5, 9, top])
    npar = nv * nh + nv + nh
    mag = max(1, min(mag, budget // npar))
    return dict(nv=nv, nh=nh, B=B, am=random_net(rng, nv, nh, mag), ph=random_net(rng, nv, nh, mag))


class PointsFile:
    def __init__(self, points):
        self.dir = tempfile.mkdtemp(prefix="verif-pts-")
        self.path = os.path.join(self.dir, "points.ndjson")
        with open(self.path, "w") as fh:
            for p in points:
                fh.write(json.dumps(p) + "\n")

    def close(self):
        import shutil
        shutil.rmtree(self.dir, ignore_errors=True)


def set_net(rbm, net, B):
    lnB = math.log(B)
    with torch.no_grad():
        rbm.weights.copy_(torch.tensor(net["W"], dtype=torch.double) * lnB)
        rbm.visible_bias.copy_(torch.tensor(net["b"], dtype=torch.double) * lnB)
        rbm.hidden_bias.copy_(torch.tensor(net["c"], dtype=torch.double) * lnB)


def positive_state(pt):
    s = PositiveWaveFunction(pt["nv"], pt["nh"], gpu=False)
    set_net(s.rbm_am, pt["am"], pt["B"])
    return s


def complex_state(pt):
    s = ComplexWaveFunction(pt["nv"], pt["nh"], gpu=False)
    set_net(s.rbm_am, pt["am"], pt["B"])
    set_net(s.rbm_ph, pt["ph"], pt["B"])
    return s


def space(nv):
    return torch.tensor([[(k >> (nv - 1 - s)) & 1 for s in range(nv)] for k in range(2 ** nv)], dtype=torch.double)
