"""C05 - Gibbs sampling targets exactly the distribution the model reports.

(1) spec/RBM.tla and spec/PurifRBM.tla define joint weight, marginals and conditionals on
the exact lattice; TLC checks (mod three primes) conditional = joint / marginal both ways,
normalisation of the conditionals, detailed balance and invariance of the one-step visible
kernel with the REPORTED distribution.  The exported conditionals are compared with
prob_h_given_v / prob_a_given_v / prob_v_given_h(a) of the real classes (vector, batch, out=).
(2) spec/Gibbs.tla is the sampling protocol (draw H, (A), V per step; exactly k steps; buffer
rule); TLC explores it exhaustively on tiny models; real gibbs_steps / sample calls are
recorded by wrapping torch.bernoulli and validated by TraceGibbs.tla: every probability
tensor must be the specification's conditional of the current chain state.
(3) auxiliary: the empirical k-step law of many parallel chains against K^k.
"""
import copy
import json
import os
import random
import shutil
import tempfile
from fractions import Fraction

import numpy as np
import torch

import common
import lattice
import terms
import tlc

PID = "C05"
qucumber = common.import_qucumber()
from qucumber.rbm import BinaryRBM, PurificationRBM  # noqa: E402


def sig(B, m):
    return Fraction(B) ** m / (1 + Fraction(B) ** m)


def cmp_probs(chk, key, got, want, detail):
    """got: tensor; want: nested list of Fractions"""
    g = got.reshape(-1).tolist()
    w = [x for row in want for x in row] if want and isinstance(want[0], list) else list(want)
    chk.evaluations += 1
    if len(g) != len(w):
        chk.violation(key + ":shape", dict(detail, got_shape=list(got.shape), expected_len=len(w)))
        return False
    for a, b in zip(g, w):
        if abs(a - float(b)) > 1e-12 + 1e-9 * float(b):
            chk.violation(key, dict(detail, got=g[:8], expected=[float(x) for x in w[:8]]))
            return False
    return True


def replay_plain(chk, e, n):
    nv, nh, B = e["nv"], e["nh"], e["B"]
    pt = dict(nv=nv, nh=nh, B=B, am=e["am"], ph=e["ph"])
    rbm = lattice.pooled_rbm(nv, nh)
    lattice.set_net(rbm, e["am"], B)
    sp = lattice.space(nv)
    hs = torch.tensor(lattice.rows(nh), dtype=torch.double)
    det = dict(point=pt)
    wantH = [[sig(B, m) for m in r["ms"]] for r in e["pam"]]
    wantV = [[sig(B, m) for m in r["ms"]] for r in e["qam"]]
    cmp_probs(chk, "plain:prob_h_given_v[batch]", rbm.prob_h_given_v(sp), wantH, det)
    cmp_probs(chk, "plain:prob_v_given_h[batch]", rbm.prob_v_given_h(hs), wantV, det)
    k = n % (2 ** nv)
    cmp_probs(chk, "plain:prob_h_given_v[1-D]", rbm.prob_h_given_v(sp[k]), wantH[k], dict(det, state=k))
    l = n % (2 ** nh)
    cmp_probs(chk, "plain:prob_v_given_h[1-D]", rbm.prob_v_given_h(hs[l]), wantV[l], dict(det, hidden=l))
    out = torch.full((2 ** nv, nh), 7.0, dtype=torch.double)
    r = rbm.prob_h_given_v(sp, out=out)
    cmp_probs(chk, "plain:prob_h_given_v[out=]", out, wantH, det)
    if r.data_ptr() != out.data_ptr():
        chk.violation("plain:prob_h_given_v[out=]:not-returned", det)
    out = torch.full((2 ** nh, nv), 7.0, dtype=torch.double)
    rbm.prob_v_given_h(hs, out=out)
    cmp_probs(chk, "plain:prob_v_given_h[out=]", out, wantV, det)


def replay_purif(chk, e, n):
    pt = e["pt"]
    nv, nh, na, B = pt["nv"], pt["nh"], pt["na"], pt["B"]
    st = lattice.density_state(pt)
    rbm = st.rbm_am
    sp = lattice.space(nv)
    det = dict(point=pt)
    wantH = [[sig(B, m) for m in r["ms"]] for r in e["A"]]
    wantA = [[sig(B, m) for m in r] for r in e["EAx"]]
    cmp_probs(chk, "purif:prob_h_given_v[batch]", rbm.prob_h_given_v(sp), wantH, det)
    cmp_probs(chk, "purif:prob_a_given_v[batch]", rbm.prob_a_given_v(sp), wantA, det)
    k = n % (2 ** nv)
    cmp_probs(chk, "purif:prob_a_given_v[1-D]", rbm.prob_a_given_v(sp[k]), wantA[k], dict(det, state=k))
    hr, ar = lattice.rows(nh), lattice.rows(na)
    H = torch.tensor([h for h in hr for _ in ar], dtype=torch.double)
    A = torch.tensor([a for _ in hr for a in ar], dtype=torch.double)
    wantV = [[sig(B, m) for m in e["nvha"][i][j]] for i in range(len(hr)) for j in range(len(ar))]
    cmp_probs(chk, "purif:prob_v_given_ha[batch]", rbm.prob_v_given_ha(H, A), wantV, det)
    out = torch.full((len(wantV), nv), 7.0, dtype=torch.double)
    rbm.prob_v_given_ha(H, A, out=out)
    cmp_probs(chk, "purif:prob_v_given_ha[out=]", out, wantV, det)
    i = n % len(wantV)
    cmp_probs(chk, "purif:prob_v_given_ha[1-D]", rbm.prob_v_given_ha(H[i], A[i]), wantV[i], det)
    # the distribution sampling targets is the reported one: probability = diag rho = traced marginal
    p = st.probability(sp)
    want = [terms.fac(B, r["k"], r["ms"]) * terms.fac(B, 0, ea) for r, ea in zip(e["A"], e["EAx"])]
    for kk in range(2 ** nv):
        chk.evaluations += 1
        if terms.mpf(want[kk]) < 1e300 and not terms.close(p[kk].item(), want[kk], rel=1e-9 + (nh + na) * 2.1e-9):
            chk.violation("purif:probability", dict(det, state=kk, got=p[kk].item(), expected=float(want[kk])))


# ---------------------------------------------------------------------------------------------
# recording real sampling calls
class BernoulliRecorder:
    def __init__(self):
        self.ev = []

    def __enter__(self):
        self.orig = torch.bernoulli

        def bern(p, *a, **k):
            pc = p.detach().clone()                     # the library passes out=p: copy first
            r = self.orig(p, *a, **k)
            P = pc if pc.dim() == 2 else pc.reshape(1, -1)
            R = r if r.dim() == 2 else r.reshape(1, -1)
            self.ev.append(dict(e="Draw", probs=[[int(round(x * 1e6)) for x in row] for row in P.tolist()],
                                bits=[[int(x) for x in row] for row in R.tolist()], raw=R.tolist()))
            return r
        torch.bernoulli = bern
        return self

    def __exit__(self, *a):
        torch.bernoulli = self.orig


def bitrows(t):
    t = t if t.dim() == 2 else t.reshape(1, -1)
    return [[int(x) for x in row] for row in t.tolist()]


def small_model(rng, kind):
    """lattice model whose conditionals fit the integer fixed-point range of Gibbs.tla"""
    while True:
        B = rng.choice([2, 3])
        nv = rng.randint(1, 3)
        nh = rng.randint(1, 3 if B == 2 else 2)
        na = (rng.randint(1, 2 if B == 2 else 1)) if kind == "purif" else 0
        g = lambda: rng.choice([-1, 1])  # noqa: E731
        m = dict(kind=kind, nv=nv, nh=nh, na=na, B=B, W=[[g() for _ in range(nv)] for _ in range(nh)],
                 b=[g() for _ in range(nv)], c=[g() for _ in range(nh)],
                 U=[[2 * g() for _ in range(nv)] for _ in range(na)], d=[2 * g() for _ in range(na)])
        bound = 10 if B == 2 else 6
        worst = max([abs(m["c"][j]) + sum(abs(x) for x in m["W"][j]) for j in range(nh)] +
                    [abs(m["d"][k]) + sum(abs(x) for x in m["U"][k]) for k in range(na)] +
                    [abs(m["b"][i]) + sum(abs(m["W"][j][i]) for j in range(nh)) + sum(abs(m["U"][k][i]) for k in range(na))
                     for i in range(nv)])
        if worst <= bound:
            return m


def build(m, via_state, rng):
    import math
    lnB = math.log(m["B"])
    T = lambda x: torch.tensor(x, dtype=torch.double)  # noqa: E731
    if m["kind"] == "plain":
        if via_state:
            cls = rng.choice([lattice.PositiveWaveFunction, lattice.ComplexWaveFunction])
            s = cls(m["nv"], m["nh"], gpu=False)
            rbm = s.rbm_am
        else:
            s = None
            rbm = BinaryRBM(m["nv"], m["nh"], gpu=False)
        with torch.no_grad():
            rbm.weights.copy_(T(m["W"]) * lnB)
            rbm.visible_bias.copy_(T(m["b"]) * lnB)
            rbm.hidden_bias.copy_(T(m["c"]) * lnB)
    else:
        if via_state:
            s = lattice.DensityMatrix(m["nv"], m["nh"], m["na"], gpu=False)
            rbm = s.rbm_am
        else:
            s = None
            rbm = PurificationRBM(m["nv"], m["nh"], m["na"], gpu=False)
        with torch.no_grad():
            rbm.weights_W.copy_(T(m["W"]) * lnB)
            rbm.weights_U.copy_(T(m["U"]) * lnB)
            rbm.visible_bias.copy_(T(m["b"]) * lnB)
            rbm.hidden_bias.copy_(T(m["c"]) * lnB)
            rbm.aux_bias.copy_(T(m["d"]) * lnB)
    return s, rbm


def record_trace(rng):
    kind = rng.choice(["plain", "purif"])
    m = small_model(rng, kind)
    via_state = rng.random() < 0.6
    s, rbm = build(m, via_state, rng)
    ev = []
    cur = None
    # the number of steps as the caller may hold it: a Python int, a numpy integer, or ONE 0-d tensor object passed
    # to every call of the session (it is the caller's; after the calls it still says k)
    kform = rng.choice(["int", "int", "np", "tensor"])
    ksame = rng.choice([0, 1, 1, 2, 3]) if rng.random() < 0.5 else None
    kobjs = {}
    for call in range(rng.randint(1, 3)):
        kval = ksame if ksame is not None else rng.choice([0, 1, 1, 2, 3])
        k = kval if kform == "int" else np.int64(kval) if kform == "np" else kobjs.setdefault(kval, torch.tensor(kval))
        ow = rng.random() < 0.5
        with BernoulliRecorder() as rec:
            if via_state and cur is None and rng.random() < 0.5:
                n = rng.randint(1, 3)
                # (one sample is the published default of num_samples)
                out = s.sample(k) if n == 1 and rng.random() < 0.7 else s.sample(k, num_samples=n)   # start state drawn by the library
                d0 = rec.ev[0] if rec.ev else None
                if d0 is None:
                    ev.append(dict(e="Start", n=n, probs=[], bits=[]))
                    draws = []
                else:
                    ev.append(dict(e="Start", n=n, probs=d0["probs"], bits=d0["bits"]))
                    draws = rec.ev[1:]
                ev.append(dict(e="Begin", v0=ev[-1]["bits"], k=kval, ow=False))
                ev += [dict(e="Draw", probs=d["probs"], bits=d["bits"]) for d in draws]
                ev.append(dict(e="End", ret=bitrows(out), bufAfter=ev[-1 - len(draws)]["v0"], same=False))
                cur = out
                continue
            if cur is None:
                nrows = rng.randint(1, 3)
                one_d = nrows == 1 and rng.random() < 0.4
                init = torch.tensor([[rng.randint(0, 1) for _ in range(m["nv"])] for _ in range(nrows)], dtype=torch.double)
                if one_d:
                    init = init[0].clone()
                elif rng.random() < 0.35:
                    # a non-contiguous view of the caller's wider array (column slice / transposed storage):
                    # with overwrite the caller's memory must still be updated in place
                    if rng.random() < 0.5:
                        wide = torch.zeros(nrows, m["nv"] + 2, dtype=torch.double)
                        wide[:, :m["nv"]] = init
                        init = wide[:, :m["nv"]]
                    else:
                        init = init.t().contiguous().t()
            else:
                init = cur                                              # chain continued across calls
            v0 = bitrows(init)
            # "overwrite" left out is the documented default: not in place
            kw = {} if (not ow and rng.random() < 0.5) else {"overwrite": ow}
            if via_state:
                out = s.sample(k, initial_state=init, num_samples=5, **kw)
            else:
                out = rbm.gibbs_steps(k, init, **kw)
            ev.append(dict(e="Begin", v0=v0, k=kval, ow=ow))
            ev += [dict(e="Draw", probs=d["probs"], bits=d["bits"]) for d in rec.ev]
            shares = out is init or (out.numel() > 0 and out.untyped_storage().data_ptr() == init.untyped_storage().data_ptr())
            ev.append(dict(e="End", ret=bitrows(out), bufAfter=bitrows(init), same=bool(shares)))
            for d in rec.ev:
                if any(x not in (0.0, 1.0) for row in d["raw"] for x in row):
                    ev[-1]["nonbinary"] = True
            cur = out
        if int(k) != kval:
            ev[-1]["kchanged"] = int(k)          # the caller's own k object was written to
    return dict(m=m, ev=ev)


def validate(lines, timeout=900):
    d = tempfile.mkdtemp(prefix="verif-gibbs-")
    try:
        path = os.path.join(d, "t.ndjson")
        with open(path, "w") as fh:
            for ln in lines:
                fh.write(json.dumps(ln) + "\n")
        res = tlc.run("TraceGibbs", constants={"MaxK": 3}, defs={"Models": "{}", "Starts": "{}"},
                      init="TInit", next="TNext", constraints=["Track"], postcondition="Verdicts",
                      invariants=["ExactlyK", "ZeroSteps", "CallerBuf", "Shapes"], workers=1, timeout=timeout,
                      env={"TRACE_FILE": path})
    finally:
        shutil.rmtree(d, ignore_errors=True)
    v = {e["tid"]: e for e in res.exports if isinstance(e, dict) and "tid" in e}
    if len(v) != len(lines):
        raise common.MachineryError("verdicts missing\n" + res.raw[-3000:])
    return res, [v[i + 1]["matched"] == v[i + 1]["need"] for i in range(len(lines))], [v[i + 1]["matched"] for i in range(len(lines))]


def well_shaped(ln):
    for e in ln["ev"]:
        if e.get("nonbinary"):
            return False
        if e["e"] == "Draw" and (not e["probs"] or not e["bits"]):
            return False
        if e["e"] == "Start" and not e["bits"]:
            return False
    return True


def exact_kernel(m):
    """one block-Gibbs step v -> v' from the exact conditionals at the lattice point m"""
    import numpy as np
    nv, nh, na, B = m["nv"], m["nh"], m["na"], m["B"]
    vr, hr, ar = lattice.rows(nv), lattice.rows(nh), lattice.rows(na) if na else [[]]
    K = np.zeros((2 ** nv, 2 ** nv))
    for iv, v in enumerate(vr):
        for h in hr:
            ph = 1.0
            for j in range(nh):
                p = float(sig(B, m["c"][j] + sum(m["W"][j][i] * v[i] for i in range(nv))))
                ph *= p if h[j] else 1 - p
            for a in ar:
                pa = 1.0
                for k in range(na):
                    p = float(sig(B, m["d"][k] + sum(m["U"][k][i] * v[i] for i in range(nv))))
                    pa *= p if a[k] else 1 - p
                for iw, w in enumerate(vr):
                    pv = 1.0
                    for i in range(nv):
                        p = float(sig(B, m["b"][i] + sum(h[j] * m["W"][j][i] for j in range(nh))
                                      + sum(a[k] * m["U"][k][i] for k in range(na))))
                        pv *= p if w[i] else 1 - p
                    K[iv, iw] += ph * pa * pv
    return K


def empirical_law(chk, rng, seed):
    """auxiliary: k-step law of 40000 parallel chains against K^k (exact conditionals)."""
    import numpy as np
    torch.manual_seed(seed)
    n = 40000
    for kind in ("plain", "purif"):
        m = small_model(rng, kind)
        s, rbm = build(m, False, rng)
        nv, nh, na, B = m["nv"], m["nh"], m["na"], m["B"]
        vr = lattice.rows(nv)
        K = exact_kernel(m)
        eps = ((2 ** nv * 0.6931 + 20.8) / (2 * n)) ** 0.5          # false-alarm probability <= 1e-9
        for k in (1, 2, 3):
            start = rng.randrange(2 ** nv)
            init = torch.tensor([vr[start]] * n, dtype=torch.double)
            out = rbm.gibbs_steps(k, init)
            codes = (out * torch.tensor([2 ** (nv - 1 - i) for i in range(nv)], dtype=torch.double)).sum(1).long()
            emp = torch.bincount(codes, minlength=2 ** nv).double().numpy() / n
            law = np.linalg.matrix_power(K, k)[start]
            tv = 0.5 * abs(emp - law).sum()
            chk.evaluations += 1
            if tv > eps:
                chk.violation("law:%s:k-step-law" % kind, dict(model=m, k=k, start=start, tv=tv, eps=eps,
                                                                empirical=emp.tolist(), exact=law.tolist()))
    chk.extra["law_chains"] = n


def composition(chk, rng, seed):
    """Chains continued across calls: k1 steps and then k2 steps in a second call follow K^(k1+k2) (fresh,
    independent noise in every call), whether the first call's result is passed on or the caller's tensor is
    advanced in place; and two calls from identical start states do not return the same 64 x n fair bits."""
    import numpy as np
    from qucumber.nn_states import PositiveWaveFunction, ComplexWaveFunction, DensityMatrix
    torch.manual_seed(seed + 17)
    # (a) two calls from clones of one start state: 64 rows of near-fair bits coincide with probability < 2^-100
    for typ in ("positive", "complex", "density"):
        st = (PositiveWaveFunction(3, 2, gpu=False) if typ == "positive" else ComplexWaveFunction(3, 2, gpu=False)
              if typ == "complex" else DensityMatrix(3, 2, 2, gpu=False))
        with torch.no_grad():
            for net in st.networks:
                for p in getattr(st, net).parameters():
                    p.copy_(0.3 * torch.randn_like(p))
        start = torch.zeros(64, 3, dtype=torch.double)
        for how in ("sample", "gibbs_steps"):
            if how == "sample":
                r1 = st.sample(k=2, initial_state=start.clone())
                r2 = st.sample(k=2, initial_state=start.clone())
            else:
                r1 = st.rbm_am.gibbs_steps(2, start.clone())
                r2 = st.rbm_am.gibbs_steps(2, start.clone())
            chk.evaluations += 1
            if torch.equal(r1, r2):
                chk.violation("law:%s:calls-replay-the-same-noise" % typ,
                              dict(call=how, why="two successive calls from identical start states returned the same 64 x 3 bits"))
    # (b) composition: k1 then k2 in separate calls against K^(k1+k2)
    n = 40000
    for kind in ("plain", "purif"):
        m = small_model(rng, kind)
        s, rbm = build(m, False, rng)
        nv = m["nv"]
        K = exact_kernel(m)
        vr = lattice.rows(nv)
        eps = ((2 ** nv * 0.6931 + 20.8) / (2 * n)) ** 0.5          # false-alarm probability <= 1e-9
        for k1, k2, inplace in ((1, 1, False), (1, 2, True), (2, 1, True)):
            startk = rng.randrange(2 ** nv)
            buf = torch.tensor([vr[startk]] * n, dtype=torch.double)
            if inplace:
                rbm.gibbs_steps(k1, buf, overwrite=True)
                rbm.gibbs_steps(k2, buf, overwrite=True)
                out = buf
            else:
                out = rbm.gibbs_steps(k2, rbm.gibbs_steps(k1, buf))
            codes = (out * torch.tensor([2 ** (nv - 1 - i) for i in range(nv)], dtype=torch.double)).sum(1).long()
            emp = torch.bincount(codes, minlength=2 ** nv).double().numpy() / n
            law = np.linalg.matrix_power(K, k1 + k2)[startk]
            tv = 0.5 * abs(emp - law).sum()
            chk.evaluations += 1
            if tv > eps:
                chk.violation("law:%s:composition-across-calls" % kind,
                              dict(model=m, k1=k1, k2=k2, in_place=inplace, start=startk, tv=tv, eps=eps,
                                   empirical=emp.tolist(), exact=law.tolist()))


def run(tier, seed):
    chk = common.Check(PID, tier, seed)
    lattice.REUSE = True          # parameter settings reached on live objects, by every route (see lattice.py)
    rng = random.Random(seed)
    chk.rule = ("lattice points (all parameters non-zero): joint/marginal/conditional identities and detailed balance "
                "checked by TLC for plain (nv,nh<=4) and purification RBMs (nv<=3, nh,na<=2), conditionals replayed "
                "into the real classes; Gibbs.tla protocol exhaustive on tiny models; recorded real sampling calls "
                "(gibbs_steps and sample on all state types, k=0..3, overwrite on/off, chains continued across calls, "
                "1-D and batched starts) validated by TraceGibbs.tla; non-trivial = trace with >= 1 Gibbs round")
    quick = tier == "quick"
    # ---- (1a) plain RBM
    pts = [lattice.random_point(rng, nvmax=3 if quick else 4, nhmax=3 if quick else 4, budget=1700) for _ in range(80 if quick else 800)]
    pf = lattice.PointsFile(pts)
    try:
        res = tlc.run("RBM", constants={"TMax": 1800, "Lanes": 32},
                      defs={"Archs": "{<<1,1,2>>, <<2,1,3>>, <<1,2,2>>}" if quick else
                            "{<<1,1,2>>, <<2,1,3>>, <<1,2,3>>, <<2,2,2>>, <<2,2,3>>}",
                            # (three values per parameter in both tiers: with four, the two 2x2 architectures alone are 131072
                            # points and this run took more than 80 minutes on a machine that was busy otherwise)
                            "Vals": "{-1, 1, 2}"},
                      invariants=["WellDefined", "JointBothWays", "CondNormalised", "Reversible", "Stationary", "Export"],
                      env={"POINTS_FILE": pf.path}, workers=16, timeout=3400)
    finally:
        pf.close()
    chk.add_tlc(res, "RBM.tla JointBothWays/CondNormalised/Reversible/Stationary")
    if res.violation == "WellDefined":
        raise common.MachineryError("lattice bound exceeded\n" + res.raw[-2000:])
    if res.violation:
        chk.violation("spec:RBM:" + str(res.violation), dict(tlc=res.raw[-4000:]))
        return chk.finish()
    exps = res.exports
    enum = [e for e in exps if e["idx"] == 0]
    exps = [e for e in exps if e["idx"] > 0] + rng.sample(enum, min(300 if quick else 20000, len(enum)))
    for n, e in enumerate(exps):
        replay_plain(chk, e, n)
        chk.nontriv(("plain", e["nv"], e["nh"], e["B"], str(e["am"])))
    # ---- (1b) purification RBM
    pts = [lattice.random_purif_point(rng, nvmax=3, nhmax=2, namax=2) for _ in range(60 if quick else 1000)]
    pf = lattice.PointsFile(pts)
    try:
        res2 = tlc.run("PurifRBM", constants={"TMax": 1800, "Lanes": 32},
                       defs={"Archs": "{<<1,1,1,2>>}" if quick else "{<<1,1,1,2>>, <<2,1,1,3>>, <<1,1,2,2>>}",
                             "Vals": "{-1, 1, 2}"},
                       invariants=["WellDefined", "Marginal", "JointBothWays", "Reversible", "Stationary", "Export"],
                       env={"POINTS_FILE": pf.path}, workers=16, timeout=3400)
    finally:
        pf.close()
    chk.add_tlc(res2, "PurifRBM.tla Marginal/JointBothWays/Reversible/Stationary")
    if res2.violation == "WellDefined":
        raise common.MachineryError("lattice bound exceeded\n" + res2.raw[-2000:])
    if res2.violation:
        chk.violation("spec:PurifRBM:" + str(res2.violation), dict(tlc=res2.raw[-4000:]))
        return chk.finish()
    exps2 = res2.exports
    if len(exps2) > (400 if quick else 8000):
        exps2 = rng.sample(exps2, 400 if quick else 8000)
    for n, e in enumerate(exps2):
        replay_purif(chk, e, n)
        chk.nontriv(("purif", str(e["pt"])))
    chk.sample(dict(plain_point=dict(nv=exps[0]["nv"], nh=exps[0]["nh"], B=exps[0]["B"], am=exps[0]["am"]),
                    hidden_preactivations=exps[0]["pam"][:2]))
    # control: a conditional that ignores the hidden bias must be flagged
    ctl = common.Check(PID, tier, seed)
    e = copy.deepcopy(exps[0])
    e["pam"] = [dict(r, ms=[m - e["am"]["c"][j] for j, m in enumerate(r["ms"])]) for r in e["pam"]]
    replay_plain(ctl, e, 0)
    chk.control(len(ctl.violations) > 0, "conditional without hidden bias compared equal")
    # ---- (2) protocol, exhaustive on tiny models
    models = ('{[kind |-> "plain", nv |-> 2, nh |-> 1, na |-> 0, B |-> 2, W |-> <<<<1, -1>>>>, b |-> <<1, -1>>, c |-> <<1>>, U |-> <<>>, d |-> <<>>], '
              '[kind |-> "purif", nv |-> 1, nh |-> 1, na |-> 1, B |-> 2, W |-> <<<<1>>>>, b |-> <<-1>>, c |-> <<1>>, U |-> <<<<2>>>>, d |-> <<-2>>]}')
    res3 = tlc.run("Gibbs", constants={"MaxK": 2},
                   defs={"Models": models,
                         "Starts": "UNION {[1..r -> [1..w -> {0, 1}]] : r \\in 1..2, w \\in 1..2}"},
                   invariants=["ExactlyK", "ZeroSteps", "CallerBuf", "Shapes"], properties=["Untouched"],
                   constraints=["MC_Bound"], extra_text="MC_Bound == TLCGet(\"level\") <= 9",
                   workers=8, timeout=600)
    chk.add_tlc(res3, "Gibbs.tla protocol")
    if res3.violation:
        chk.violation("spec:Gibbs:" + str(res3.violation), dict(tlc=res3.raw[-4000:]))
        return chk.finish()
    # ---- (2b) recorded real calls
    lines = []
    for i in range(200 if quick else 2500):
        torch.manual_seed(rng.randrange(10 ** 6))
        ln = record_trace(rng)
        kc = [e for e in ln["ev"] if "kchanged" in e]
        if kc:
            chk.violation("trace:callers-k-modified", dict(model=ln["m"], k_now=kc[0]["kchanged"],
                                                           why="the object passed as the number of steps was written to"))
            continue
        if not well_shaped(ln):
            chk.violation("trace:rejected:shape", dict(model=ln["m"], why="draw without probabilities/bits or non-binary sample",
                                                      events=[e["e"] for e in ln["ev"]]))
            continue
        lines.append(ln)

    def ctl_prob(lines):
        ln = copy.deepcopy(next(x for x in lines if sum(1 for e in x["ev"] if e["e"] == "Draw") >= 2))
        d = [e for e in ln["ev"] if e["e"] == "Draw"][1]
        d["probs"][0][0] += 3
        return ln

    def ctl_bits(lines):
        ln = copy.deepcopy(next(x for x in lines if sum(1 for e in x["ev"] if e["e"] == "Draw") >= 2))
        d = [e for e in ln["ev"] if e["e"] == "Draw"][0]
        d["bits"][0][0] = 1 - d["bits"][0][0]              # the drawn bit is not what the chain continued from
        return ln

    def ctl_round(lines):
        ln = copy.deepcopy(next(x for x in lines if any(e["e"] == "Begin" and e["k"] >= 2 for e in x["ev"])))
        i = next(i for i, e in enumerate(ln["ev"]) if e["e"] == "Begin" and e["k"] >= 2)
        per = 3 if ln["m"]["kind"] == "purif" else 2
        del ln["ev"][i + 1:i + 1 + per]                    # k-1 rounds
        return ln

    def ctl_buf(lines):
        ln = copy.deepcopy(next(x for x in lines if any(e["e"] == "Begin" and not e["ow"] and e["k"] >= 1 for e in x["ev"])))
        i = next(i for i, e in enumerate(ln["ev"]) if e["e"] == "Begin" and not e["ow"] and e["k"] >= 1)
        j = next(j for j in range(i, len(ln["ev"])) if ln["ev"][j]["e"] == "End")
        ln["ev"][j]["bufAfter"] = [[1 - x for x in row] for row in ln["ev"][j]["bufAfter"]]
        return ln
    ctls = [ctl_prob(lines), ctl_bits(lines), ctl_round(lines), ctl_buf(lines)]
    tres, acc, matched = validate([{k: v for k, v in ln.items()} for ln in lines] + ctls)
    chk.add_tlc(tres, "TraceGibbs.tla (%d traces)" % len(lines))
    if tres.violation:
        chk.violation("trace:invariant:" + str(tres.violation), dict(tlc=tres.raw[-3000:]))
    for name, ok in zip(["probability off by 3e-6", "flipped drawn bit", "one Gibbs round missing", "caller buffer changed without overwrite"], acc[len(lines):]):
        chk.control(not ok, "corrupted trace accepted: " + name)
    for i, ok in enumerate(acc[:len(lines)]):
        if ok:
            chk.traces += 1
            if any(e["e"] == "Draw" for e in lines[i]["ev"]):
                chk.nontriv(("trace", i))
        else:
            ev = lines[i]["ev"]
            nxt = ev[matched[i]] if matched[i] < len(ev) else None
            chk.violation("trace:rejected:%s:%s" % (lines[i]["m"]["kind"], nxt["e"] if nxt else "end"),
                          dict(model=lines[i]["m"], matched_prefix=matched[i], next_event=nxt,
                               events=[e["e"] for e in ev]))
    chk.sample(dict(trace_model=lines[0]["m"], events=lines[0]["ev"][:4]))
    # ---- (3) auxiliary statistical test
    empirical_law(chk, rng, seed)
    composition(chk, rng, seed)
    chk.assumptions += ["torch.bernoulli is a faithful Bernoulli sampler (auxiliary law test only)",
                        "lattice parameters; trace models restricted so that conditionals fit 32-bit fixed point",
                        "double-precision start states (overwrite applies to tensors already on the RBM's device/dtype)"]
    return chk.finish()
