"""C14 binding: execute operation histories of spec/Lifecycle.tla on the real classes and
record token streams (hashes of parameters, of torch's generator state, of each result).

No QuCumber semantics lives here: an abstract operation record (the specification's
`MkOp`) is turned into one concrete public call; what the call *should* do to the
parameters / the generator is decided by TraceOps.tla from the recorded tokens.

Concrete arguments are a function of (session, abstract operation) only - never of the
position in the history - so that equal specification terms mean equal concrete calls.
The harness itself never draws from torch's, numpy's or `random`'s global generators
(it uses private random.Random instances), except where it deliberately perturbs them.
"""
import io
import json
import math
import random
import struct
import warnings

import numpy as np
import torch

import common

qucumber = common.import_qucumber()
from qucumber.nn_states import PositiveWaveFunction, ComplexWaveFunction, DensityMatrix  # noqa: E402
from qucumber.observables import SigmaX, SigmaY, SigmaZ, NeighbourInteraction, SWAP, System  # noqa: E402
from qucumber.utils import unitaries  # noqa: E402
import qucumber.utils.training_statistics as ts  # noqa: E402

torch.set_num_threads(1)

OP_FIELDS = ("o", "f", "k", "n", "e", "init")
OP_NAMES = {"Seed", "Construct", "Reinit", "Sample", "ObsSample", "Stats", "Eval", "BatchGrads",
            "Save", "Load", "SetStop", "Fit", "Perturb"}

EVAL_COMMON = ["prob", "norm", "apply_sz", "apply_sx", "apply_sy", "apply_nn", "apply_swap", "apply_sum",
               "sfs", "sys_sfs", "grad", "posgrad", "exactgrad", "nll", "kl", "fid", "hilbert", "isw",
               # calls the library refuses or that fail on the way (the user catches the exception): like every
               # evaluation they write no parameter and draw nothing - and must leave no other trace either
               "fail_dict", "fail_hilbert", "fail_save", "fail_rot", "fail_lambda", "fail_stopval", "fail_mult",
               "fail_sample", "fail_load"]
EVAL_WAVE = ["psi", "amp", "phase", "rotpsi", "rotinner"]
EVAL_BASES = ["nll_bases", "kl_bases", "grad_bases", "fail_grad", "fail_fit"]
EVAL_DENSITY = ["rho", "rho_diag", "pi", "rotrho", "rotprobs"]


def eval_fns(typ):
    if typ == "positive":
        return EVAL_COMMON + EVAL_WAVE
    if typ == "complex":
        return EVAL_COMMON + EVAL_WAVE + EVAL_BASES
    return EVAL_COMMON + EVAL_DENSITY + EVAL_BASES


def mkop(o, f="", k=0, n=0, e=0, init=False):
    return dict(o=o, f=f, k=int(k), n=int(n), e=int(e), init=bool(init))


def op_ok(op):
    return (isinstance(op, dict) and set(op) == set(OP_FIELDS) and op["o"] in OP_NAMES
            and isinstance(op["f"], str) and all(isinstance(op[x], int) and not isinstance(op[x], bool)
                                                  and op[x] >= 0 for x in ("k", "n", "e"))
            and isinstance(op["init"], bool))


# ---------------------------------------------------------------------------
# bytes of arbitrary results

def to_bytes(x):
    if x is None:
        return b"N"
    if isinstance(x, torch.Tensor):
        a = x.detach().cpu().contiguous().numpy()
        return b"T" + str(a.dtype).encode() + str(a.shape).encode() + a.tobytes()
    if isinstance(x, np.ndarray):
        return b"A" + str(x.dtype).encode() + str(x.shape).encode() + np.ascontiguousarray(x).tobytes()
    if isinstance(x, (bool, np.bool_)):
        return b"B1" if x else b"B0"
    if isinstance(x, (int, np.integer)):
        return b"I" + str(int(x)).encode()
    if isinstance(x, (float, np.floating)):
        return b"F" + struct.pack("<d", float(x))
    if isinstance(x, complex):
        return b"C" + struct.pack("<dd", x.real, x.imag)
    if isinstance(x, str):
        return b"S" + x.encode()
    if isinstance(x, dict):
        return b"D{" + b",".join(to_bytes(str(k)) + b":" + to_bytes(v) for k, v in sorted(x.items(), key=lambda kv: str(kv[0]))) + b"}"
    if isinstance(x, (list, tuple)):
        return b"L[" + b",".join(to_bytes(v) for v in x) + b"]"
    raise common.MachineryError("cannot serialise result of type %r" % type(x))


def pv_tokens(state):
    out = []
    for net in state.networks:
        h = []
        for name, p in getattr(state, net).named_parameters():
            h.append(name.encode() + to_bytes(p))
        out.append(common.sha(b"|".join(h)))
    return out


def rng_token():
    """The process-wide state that determines every future draw: torch's CPU generator AND the ambient settings the
    library's samplers depend on (sample() draws its start states in the default dtype, and the float32 / float64
    kernels consume the generator differently; grad mode and the determinism switch are equally process-wide).
    The specification's `rng` term stands for all of it: an operation that does not draw leaves it unchanged."""
    amb = "%s|%s|%s" % (torch.get_default_dtype(), torch.is_grad_enabled(), torch.are_deterministic_algorithms_enabled())
    return common.sha(torch.get_rng_state().numpy().tobytes() + amb.encode())


# ---------------------------------------------------------------------------
# a session: everything that is fixed for the three runs of one history

class Session:
    def __init__(self, typ, sid, big=False):
        self.typ, self.sid = typ, str(sid)
        r = random.Random("sess-" + self.sid)
        self.nv = r.choice([2, 3]) if not big else r.choice([3, 4])
        self.nh = r.choice([1, 2, 3])
        self.na = r.choice([1, 2])
        self.N = r.randint(5, 9)
        self.data = [[r.randint(0, 1) for _ in range(self.nv)] for _ in range(self.N)]
        self.bases = None
        if typ != "positive":
            rows = [["Z"] * self.nv for _ in range(self.N)]
            for i in range(self.N):
                if i > 0 and r.random() < 0.6:
                    rows[i] = [r.choice("XYZ") for _ in range(self.nv)]
            self.bases = rows
        d = 2 ** self.nv
        v = [complex(r.gauss(0, 1), r.gauss(0, 1)) for _ in range(d)]
        nrm = math.sqrt(sum(abs(z) ** 2 for z in v))
        self.psi = [z / nrm for z in v]
        m = [[complex(r.gauss(0, 1), r.gauss(0, 1)) for _ in range(d)] for _ in range(d)]
        rho = [[sum(m[i][k] * m[j][k].conjugate() for k in range(d)) for j in range(d)] for i in range(d)]
        tr = sum(rho[i][i].real for i in range(d))
        self.rho = [[z / tr for z in row] for row in rho]
        # a third of the sessions live where the hidden units are saturated (|hidden bias| > 35): sampling
        # stays random (the visible conditionals are moderate) while every guard an implementation may put
        # around a sigmoid or an exponential is active
        self.saturated = random.Random("sat-" + self.sid).random() < 0.34

    def seed_value(self, k):
        """abstract seed -> concrete seed (injective); "all seeds": 0 is a seed like any other"""
        base = int(common.sha(self.sid.encode()), 16) % 1000
        if base % 4 == 0 and k == 1:
            return 0
        return 900001 + 7919 * k + base * 100003

    def rnd(self, op):
        return random.Random("op-" + self.sid + json.dumps(op, sort_keys=True))

    def bits(self, r, rows):
        return [[r.randint(0, 1) for _ in range(self.nv)] for _ in range(rows)]


def make_state(typ, nv, nh, na, saturated=False):
    if typ == "positive":
        st = PositiveWaveFunction(nv, nh, gpu=False)
    elif typ == "complex":
        st = ComplexWaveFunction(nv, nh, gpu=False)
    else:
        st = DensityMatrix(nv, nh, na, gpu=False)
    # "construct" = build and set parameters: EVERY parameter (all biases included, also the ones the
    # library itself never moves) gets a non-zero value drawn from the seeded torch generator, so that a
    # read-only operation that resets or rescales any of them is visible in the parameter tokens
    with torch.no_grad():
        for net in st.networks:
            for name, p in getattr(st, net).named_parameters():
                p.add_(torch.randn_like(p) * 0.5)
                if saturated and name == "hidden_bias":
                    p.add_(torch.sign(p) * (36.0 + 20.0 * torch.rand_like(p)))
    return st


class Ctx:
    """One run of a session."""

    def __init__(self, sess, which="a"):
        self.sess = sess
        self.which = which
        self.state = None
        self.saved = None
        self.held, self.held0 = {}, {}
        # callback objects a script builds at its top, BEFORE it seeds (whatever they do at construction must not
        # tie later seeded runs to the state the generator had then)
        from qucumber.callbacks import ObservableEvaluator
        self.obs_eval = ObservableEvaluator(1, [SigmaZ()], num_samples=20, num_chains=5, burn_in=2, steps=1)


def _target(sess):
    if sess.typ == "density":
        return torch.tensor([[[z.real for z in row] for row in sess.rho],
                             [[z.imag for z in row] for row in sess.rho]], dtype=torch.double)
    return torch.tensor([[z.real for z in sess.psi], [z.imag for z in sess.psi]], dtype=torch.double)


def _observable(name):
    return {"apply_sz": SigmaZ(), "apply_sx": SigmaX(), "apply_sy": SigmaY(),
            "apply_nn": NeighbourInteraction(periodic_bcs=True, c=1), "apply_swap": SWAP([0]),
            "apply_sum": 2 * SigmaZ() + SigmaX() - 0.5}[name]


def _basis_rows(sess, r, rows):
    out = [[r.choice("XYZ") for _ in range(sess.nv)] for _ in range(rows)]
    out[0] = ["Z"] * sess.nv
    return np.array(out)


def _eval(ctx, op, r):
    s, sess, f = ctx.state, ctx.sess, op["f"]
    nv = sess.nv
    space = s.generate_hilbert_space()
    samples = torch.tensor(sess.bits(r, 6), dtype=torch.double)
    ud = unitaries.create_dict()
    basis = [r.choice("XYZ") for _ in range(nv)]
    if not any(b != "Z" for b in basis):
        basis[0] = "X"
    if f.startswith("fail_"):
        return _failing(ctx, f, r, space, samples)
    if f == "prob":
        return s.probability(space, s.normalization(space))
    if f == "norm":
        return s.normalization(space)
    if f.startswith("apply_"):
        return _observable(f).apply(s, samples)
    if f == "sfs":
        return SigmaX().statistics_from_samples(s, samples)
    if f == "sys_sfs":
        return System(SigmaZ(), SigmaY()).statistics_from_samples(s, samples)
    if f == "grad":
        return s.gradient(samples)
    if f == "grad_bases":
        return s.gradient(samples, bases=_basis_rows(sess, r, 6))
    if f == "posgrad":
        return s.positive_phase_gradients(samples)
    if f == "exactgrad":
        if sess.typ == "positive":
            return s.compute_exact_gradients(samples, space)
        return s.compute_exact_gradients(samples, space, bases_batch=_basis_rows(sess, r, 6))
    if f == "nll":
        return ts.NLL(s, samples, space)
    if f == "nll_bases":
        return ts.NLL(s, samples, space, sample_bases=_basis_rows(sess, r, 6))
    if f == "kl":
        return ts.KL(s, _target(sess), space)
    if f == "kl_bases":
        return ts.KL(s, _target(sess), space, bases=["".join(basis), "Z" * nv])
    if f == "fid":
        return ts.fidelity(s, _target(sess), space)
    if f == "hilbert":
        return s.generate_hilbert_space()
    if f == "isw":
        return s.importance_sampling_weight(torch.tensor(sess.bits(r, 6), dtype=torch.double), samples)
    if f == "psi":
        return s.psi(space)
    if f == "amp":
        return s.amplitude(samples)
    if f == "phase":
        return s.phase(samples)
    if f == "rotpsi":
        return unitaries.rotate_psi(s, basis, space, unitaries=ud)
    if f == "rotinner":
        return unitaries.rotate_psi_inner_prod(s, basis, samples, unitaries=ud)
    if f == "rho":
        return s.rho(space, space)
    if f == "rho_diag":
        return s.rho(samples, expand=False)
    if f == "pi":
        return s.pi(samples, space)
    if f == "rotrho":
        return unitaries.rotate_rho(s, basis, space)
    if f == "rotprobs":
        return unitaries.rotate_rho_probs(s, basis, samples)
    raise common.MachineryError("unknown evaluation %r" % f)


def _failing(ctx, f, r, space, samples):
    """A public call that raises (refused input, unknown letter, bad file ...); the user catches the exception.
    The result token is the exception class."""
    s, sess = ctx.state, ctx.sess
    nv = sess.nv
    from qucumber.callbacks import LambdaCallback
    bad_bases = np.array([["X"] + ["Z"] * (nv - 1), ["Y"] + ["Z"] * (nv - 1), ["Q"] + ["Z"] * (nv - 1), ["Z"] * nv,
                          ["Z"] * nv, ["X"] + ["Z"] * (nv - 1)])
    calls = {
        "fail_dict": lambda: unitaries.create_dict(**{"Q": r.choice([[torch.ones(2, 2), torch.zeros(2, 2)],
                                                                       [[1, 0], [0]], None])}),
        "fail_hilbert": lambda: s.generate_hilbert_space(size=r.choice([21, 30, 64])),
        "fail_save": lambda: s.save(io.BytesIO(), {r.choice(s.networks): 1}),
        "fail_rot": lambda: (unitaries.rotate_rho if sess.typ == "density" else unitaries.rotate_psi)(
            s, ["Q"] + ["Z"] * (nv - 1), space),
        "fail_lambda": lambda: LambdaCallback(on_train_start=lambda: None),
        "fail_stopval": lambda: setattr(s, "stop_training", "yes"),
        "fail_mult": lambda: SigmaZ() * SigmaX(),
        "fail_sample": lambda: s.sample(k=1, num_samples=-2),
        "fail_load": lambda: s.load(io.BytesIO(b"not a saved state")),
        "fail_grad": lambda: s.gradient(samples, bases=bad_bases),
        "fail_fit": lambda: s.fit(samples, epochs=1, pos_batch_size=2),
    }
    try:
        calls[f]()
    except Exception as ex:
        return "raised:" + type(ex).__name__
    return "no-exception"


def _held(ctx, rows):
    """Start states the caller keeps in ONE tensor for the whole session and hands to every call that does not ask to
    overwrite them.  "The same sequence of operations": in run b every such call gets an equal tensor of its own
    instead of the same object - a call that writes into a start tensor it was told to leave alone makes the two
    runs differ from the second use on."""
    if rows not in ctx.held0:
        ctx.held0[rows] = torch.tensor(ctx.sess.bits(random.Random("held-%s-%d" % (ctx.sess.sid, rows)), rows), dtype=torch.double)
        ctx.held[rows] = ctx.held0[rows].clone()
    return ctx.held0[rows].clone() if ctx.which == "b" else ctx.held[rows]


def execute(ctx, op, seed_of=None):
    """Perform one abstract operation through the public API; returns the result."""
    sess, o = ctx.sess, op["o"]
    r = sess.rnd(op)
    s = ctx.state
    if o == "Seed":
        # the seeding call in every form that seeds the CPU generator (gpu=True is a legitimate request on a
        # machine without CUDA: a script written for a GPU box)
        sd = (seed_of or sess.seed_value)(op["k"])
        form = r.randrange(4)
        if form == 0:
            qucumber.set_random_seed(sd, cpu=True, gpu=False, quiet=True)
        elif form == 1:
            qucumber.set_random_seed(sd, True, r.random() < 0.5, True)      # (seed, cpu, gpu, quiet) by position
        elif form == 2:
            qucumber.set_random_seed(sd, gpu=True, quiet=True)
        else:
            qucumber.set_random_seed(sd, quiet=True)
        return None
    if o == "Construct":
        ctx.state = make_state(sess.typ, sess.nv, sess.nh, sess.na, sess.saturated)
        return None
    if o == "Reinit":
        s.reinitialize_parameters()
        return None
    if o in ("Sample", "ObsSample"):
        init = torch.tensor(sess.bits(r, max(op["n"], 1)), dtype=torch.double) if op["init"] else None
        ow = r.random() < 0.5
        if op["init"] and r.random() < 0.3:
            # the chains start from the enumeration of all basis states the library hands out, advanced in place
            # (what the library hands out is the caller's to overwrite; nobody else may be looking at it)
            init, ow = s.generate_hilbert_space(), True
        elif op["init"] and not ow and r.random() < 0.6:
            init = _held(ctx, max(op["n"], 1))
        dflt = dict(num_samples=1, initial_state=None, overwrite=False)      # the published defaults, left out as often as passed
        if o == "Sample":
            return common.api_call(s.sample, ["k", "num_samples", "initial_state", "overwrite"],
                                   dict(k=op["k"], num_samples=op["n"], initial_state=init, overwrite=ow), defaults=dflt)
        obs = r.choice([SigmaZ(), SigmaX(), NeighbourInteraction(periodic_bcs=True)])
        return common.api_call(obs.sample, ["k", "num_samples", "initial_state", "overwrite"],
                               dict(k=op["k"], num_samples=op["n"], initial_state=init, overwrite=ow), first=(s,), defaults=dflt)
    if o == "Stats":
        chains = r.randint(2, 4)
        T = op["e"]
        num_samples = chains * T - (r.randint(0, chains - 1) if T > 1 else 0)
        init = torch.tensor(sess.bits(r, chains), dtype=torch.double) if op["init"] else None
        kw = dict(num_chains=chains, burn_in=op["k"], steps=op["n"], initial_state=init, overwrite=r.random() < 0.5)
        if op["init"] and not kw["overwrite"] and r.random() < 0.6:
            kw["initial_state"] = _held(ctx, chains)
        target = System(SigmaZ(), SigmaX()) if op["f"] == "sys" else r.choice([SigmaZ(), SigmaY(), NeighbourInteraction(periodic_bcs=True)])
        return common.api_call(target.statistics, ["num_samples", "num_chains", "burn_in", "steps", "initial_state", "overwrite"],
                               dict(kw, num_samples=num_samples), first=(s,),
                               defaults=dict(num_chains=0, burn_in=1000, steps=1, initial_state=None, overwrite=False))
    if o == "Eval":
        return _eval(ctx, op, r)
    if o == "BatchGrads":
        pos = torch.tensor(sess.bits(r, 4), dtype=torch.double)
        neg = torch.tensor(sess.bits(r, 3), dtype=torch.double)
        if r.random() < 0.5:
            neg = _held(ctx, 3)                # the chains of the negative phase start from rows the caller keeps
        if sess.typ == "positive":
            return s.compute_batch_gradients(op["k"], pos, neg)
        return s.compute_batch_gradients(op["k"], pos, neg, _basis_rows(sess, r, 4))
    if o == "Save":
        buf = io.BytesIO()
        s.save(buf, {"note": "c14"} if r.random() < 0.5 else None)
        ctx.saved = buf.getvalue()
        return None
    if o == "Load":
        s.load(io.BytesIO(ctx.saved))
        return None
    if o == "SetStop":
        s.stop_training = op["init"]
        return None
    if o == "Fit":
        pb = r.choice([2, 3, sess.N])
        nb = pb if op["n"] == 0 else pb + r.choice([1, 2])
        oc, oa = r.choice([(torch.optim.SGD, {}), (torch.optim.SGD, {"momentum": 0.9}), (torch.optim.Adam, {})])
        kw = dict(epochs=op["e"], pos_batch_size=pb, neg_batch_size=nb, k=op["k"], lr=0.1,
                  optimizer=oc, optimizer_args=oa, progbar=False)
        data = torch.tensor(sess.data, dtype=torch.double) if r.random() < 0.5 else np.array(sess.data, dtype=float)
        if sess.typ != "positive":
            kw["input_bases"] = np.array(sess.bases)
        recorded = None
        if op["e"] >= 1 and not s.stop_training and r.random() < 0.5:
            # training watched by an evaluator and stopped by its verdict: when it stops is part of the history
            from qucumber.callbacks import MetricEvaluator, ObservableEvaluator, EarlyStopping
            space = s.generate_hilbert_space()
            dt = torch.tensor(sess.data, dtype=torch.double)
            if r.random() < 0.6:
                mkw = dict(samples=dt, space=space)
                if sess.typ != "positive":
                    mkw["sample_bases"] = np.array(sess.bases)
                ev = MetricEvaluator(1, {"NLL": ts.NLL}, **mkw)
                es = EarlyStopping(1, 1e6, 1, ev, "NLL", criterion=r.choice(["relative", "absolute"]))
            else:
                if r.random() < 0.5:
                    ev = ObservableEvaluator(1, [SigmaZ()], num_samples=20, num_chains=5, burn_in=2, steps=1)
                else:
                    ev = ctx.obs_eval                    # built before the first Seed of this run
                    ev.clear_history()
                es = EarlyStopping(1, 1e6, 1, ev, "SigmaZ", criterion="variance")
            kw["callbacks"] = [ev, es]
            kw["epochs"] = op["e"] + 1          # >= 2: the stopper may act from its second evaluation on
            recorded = (ev, es)
        s.fit(data, **kw)
        if recorded is None:
            return None
        ev, es = recorded
        s.stop_training = False                 # (as a user does before training on; the abstract flag is SetStop's)
        # what the evaluator recorded is part of what the seeded run produced (statistics drawn while training)
        rec = [float(v[nm]) if not isinstance(v[nm], dict) else [float(v[nm]["mean"]), float(v[nm]["variance"])]
               for _, v in ev.past_values for nm in sorted(v)]
        return [[int(e) for e in ev.epochs], -1 if es.last_epoch is None else int(es.last_epoch), len(ev), rec]
    raise common.MachineryError("unknown operation %r" % (op,))


# ---------------------------------------------------------------------------
# the three runs of the product construction

def _perturb(g):
    """numpy.random and `random` reseeded from garbage (and used a little)."""
    np.random.seed(g.randrange(2 ** 32))
    random.seed(g.randrange(2 ** 64))
    np.random.rand(g.randint(0, 5))
    for _ in range(g.randint(0, 5)):
        random.random()


def run_once(sess, hist, which, garbage_seed=0, hooks=None):
    """Execute `hist` (list of abstract operations, Perturb included) in a fresh context.
    which: 'a' reference; 'b' generator scrambled before the first Seed and the other random
    sources perturbed between every pair of operations; 'c' every seed replaced.
    Returns one observation per event: dict(pv, rng, out, stop) of hex tokens."""
    g = random.Random("garbage-%s-%s-%s" % (garbage_seed, sess.sid, which))
    ctx = Ctx(sess, which)
    np.random.seed(12345)
    random.seed(12345)
    torch.manual_seed(4242)
    if which == "b":
        torch.manual_seed(g.randrange(2 ** 40))
        torch.rand(g.randint(1, 9))
        _perturb(g)
    seed_of = sess.seed_value
    obs = []
    last_out = common.sha(b"N")
    with warnings.catch_warnings():
        warnings.simplefilter("ignore")
        for op in hist:
            if op["o"] == "Perturb":
                if which == "b":
                    _perturb(g)
            else:
                op2 = dict(op, k=op["k"] + 1000) if (which == "c" and op["o"] == "Seed") else op
                if hooks and hooks.get("before"):
                    hooks["before"](ctx, op2, which)
                out = execute(ctx, op2, seed_of)
                last_out = common.sha(to_bytes(out))
                if which == "b":
                    _perturb(g)
            obs.append(dict(pv=pv_tokens(ctx.state) if ctx.state is not None else [],
                            rng=rng_token(), out=last_out,
                            stop=bool(ctx.state.stop_training) if ctx.state is not None else False))
    return obs


def product(sess, hist, garbage_seed=0, hooks=None):
    """-> trace line for TraceOps.tla (tokens interned to integers) + the raw observations."""
    raw = {w: run_once(sess, hist, w, garbage_seed, hooks) for w in "abc"}
    table = {}

    def tok(h):
        return table.setdefault(h, len(table) + 1)

    ev = []
    for i, op in enumerate(hist):
        e = dict(op=op)
        for w in "abc":
            o = raw[w][i]
            e[w] = dict(pv=[tok(x) for x in o["pv"]], rng=tok(o["rng"]), out=tok(o["out"]), stop=o["stop"])
        ev.append(e)
    return dict(type=sess.typ, ev=ev), raw


def describe(ev, j):
    """What the recorded tokens did at event j (pure description, no expectations)."""
    e, p = ev[j], (ev[j - 1] if j > 0 else None)
    d = dict(op=e["op"], a_equals_b=dict(pv=e["a"]["pv"] == e["b"]["pv"], rng=e["a"]["rng"] == e["b"]["rng"],
                                         out=e["a"]["out"] == e["b"]["out"]),
             a_equals_c=dict(pv=e["a"]["pv"] == e["c"]["pv"], rng=e["a"]["rng"] == e["c"]["rng"],
                             out=e["a"]["out"] == e["c"]["out"]))
    if p is not None:
        for w in "abc":
            d["changed_" + w] = dict(pv=[x != y for x, y in zip(e[w]["pv"], p[w]["pv"])] if len(e[w]["pv"]) == len(p[w]["pv"]) else "shape",
                                     rng=e[w]["rng"] != p[w]["rng"])
    return d


def malformed(line):
    """Index of the first event that is not shaped like a specification event, or None."""
    def obs_ok(o):
        return (isinstance(o, dict) and set(o) == {"pv", "rng", "out", "stop"} and isinstance(o["stop"], bool)
                and isinstance(o["pv"], list) and all(isinstance(x, int) and x > 0 for x in o["pv"] + [o["rng"], o["out"]]))
    for i, e in enumerate(line["ev"]):
        if not (isinstance(e, dict) and set(e) == {"op", "a", "b", "c"} and op_ok(e["op"])
                and all(obs_ok(e[w]) for w in "abc")):
            return i
    return None
