"""Observables are functions of (their settings, the state, the batch): the value of `apply` must not
depend on what the same observable object was applied to before.  One observable object is applied to
the SAME tensor object repeatedly while the tensor is refilled / advanced in place (what
ObservableBase.statistics does with overwrite=True), to another state, and - for SWAP - after its
region attribute was reassigned; every result must equal that of a fresh observable on a clone."""
import copy

import torch

import common

qucumber = common.import_qucumber()


def reuse_phase(chk, make_obs, states, rng, key, rounds=4, mutate_attr=None):
    """make_obs() -> fresh observable; states: list of (label, nn_state).  mutate_attr: optional
    (attribute name, list of values) reassigned on the live object between applications."""
    for label, st in states:
        nv = int(st.num_visible)
        obs = make_obs()
        buf = torch.randint(0, 2, (rng.choice([2, 3, 5, 8]), nv), generator=torch.Generator().manual_seed(rng.randrange(10 ** 6))).double()
        for r in range(rounds):
            if mutate_attr is not None and r % 2 == 1:
                name, values = mutate_attr
                setattr(obs, name, values[(r // 2) % len(values)])
            fresh = make_obs()
            if mutate_attr is not None:
                setattr(fresh, mutate_attr[0], getattr(obs, mutate_attr[0]))
            # the reference: a fresh observable on a COPY of the state and a clone of the batch, so that
            # nothing the live objects may remember (per observable, per state, per tensor) is shared
            want = fresh.apply(copy.deepcopy(st), buf.clone())
            got = obs.apply(st, buf)
            chk.evaluations += 1
            if got.shape != want.shape or not torch.allclose(got, want, rtol=1e-12, atol=1e-12):
                chk.violation("%s:reused-observable:%s" % (key, label),
                              dict(round=r, observable=repr(obs), batch=buf.tolist(), got=got.tolist(), expected=want.tolist(),
                                   why="the same observable object applied to the same tensor object after an in-place "
                                       "update (or an attribute change) does not give what a fresh observable gives"))
                break
            # advance the SAME tensor object in place, as statistics() does between draws
            if r % 3 == 0:
                st.sample(1, initial_state=buf, overwrite=True)
            elif r % 3 == 1:
                # the state's parameters move in place (a training step, load()), the batch stays
                with torch.no_grad():
                    for net in st.networks:
                        for p in getattr(st, net).parameters():
                            p.add_(0.25 * torch.randn(p.shape, generator=torch.Generator().manual_seed(rng.randrange(10 ** 6)), dtype=p.dtype))
            else:
                buf.copy_(torch.randint(0, 2, buf.shape, generator=torch.Generator().manual_seed(rng.randrange(10 ** 6))).double())
        chk.nontriv((key, "reuse", label))
