"""C11, ModelSaver path: the real callbacks.ModelSaver inside real multi-epoch fit() calls, so that one
metadata object is handed to save() several times (SaverTick of spec/Persist.tla, iterated by fit
itself).  Every written file must hold the parameters the model had at that event (bit-identical),
the unitary dictionary (with the user's unitary), the metadata of that event; autoload / load must
give it all back; the caller's dict must come out unchanged."""
import contextlib
import copy
import io
import os
import shutil
import warnings

import numpy as np
import torch

import common
import persist_replay as pr

qucumber = common.import_qucumber()
from qucumber.callbacks import CallbackBase, ModelSaver  # noqa: E402
from qucumber.utils import unitaries  # noqa: E402

SHAPES = {"positive": [(2, 3), (3, 1)], "complex": [(2, 3), (3, 2)], "density": [(2, 3, 1), (3, 1, 2)]}
KINDS = ["dict", "empty", "callable", "none", "tensors"]


class Snap(CallbackBase):
    """placed after the saver: clones the parameters at the events at which the saver may write"""

    def __init__(self):
        self.at = {}

    def on_train_start(self, nn_state):
        self.at["initial"] = pr.clone_params(pr.model_params(nn_state))

    def on_epoch_end(self, nn_state, epoch):
        self.at[str(epoch)] = pr.clone_params(pr.model_params(nn_state))


def fn_meta(nn_state, epoch):
    return {"epoch_meta": epoch, "lr": 0.5 * epoch, "tags": ["a", {"b": epoch}], "nv": int(nn_state.num_visible)}


def scenario(chk, tmpdir, typ, shape, kind, epochs, save_initial, period, seed, fault=None, ctor_udict=False,
             start=1):
    """One fit() with ModelSaver.  Violations are reported on chk; returns nothing."""
    torch.manual_seed(seed)
    rng = np.random.RandomState(seed % (2 ** 31))
    desc = dict(typ=typ, shape=list(shape), kind=kind, epochs=epochs, save_initial=save_initial, period=period,
                seed=seed, fault=fault, ctor_udict=ctor_udict, start=start)
    folder = os.path.join(tmpdir, "saver")
    shutil.rmtree(folder, ignore_errors=True)

    def bad(aspect, detail, known=False):
        key = pr.KNOWN if known else "saver:%s:%s:%s" % (typ, kind, aspect)
        chk.violation(key, dict(scenario=desc, aspect=aspect, detail=detail, seed=seed,
                                reproducer="%s%s.fit(data, epochs=%d, callbacks=[ModelSaver(%d, dir, 'm{}.pt', save_initial=%s, "
                                           "metadata=<%s>)])" % (typ, tuple(shape), epochs, period, save_initial, kind)))

    # the model: architecture with nh != nv (na != nv), non-zero biases, a user unitary
    extra = torch.tensor(rng.normal(size=(2, 2, 2)), dtype=torch.double)
    with warnings.catch_warnings():
        warnings.simplefilter("ignore")
        cls = pr.CLASSES[typ]
        if typ == "positive":
            m = cls(shape[0], shape[1], gpu=False)
        elif ctor_udict:
            m = cls(*shape, unitary_dict=unitaries.create_dict(H=extra), gpu=False)
        else:
            m = cls(*shape, gpu=False)
            m.unitary_dict["H"] = extra
    pr.nonzero_biases(m, rng)
    pr.arm(m, fault)
    # the metadata
    if kind == "dict":
        md = pr.make_meta({"plain"}, 1)
    elif kind == "tensors":
        md = {"t": torch.arange(4, dtype=torch.double), "deep": {"list": [torch.ones(2, 2), 3, "s"], "f": -0.25}}
    elif kind == "empty":
        md = {}
    elif kind == "callable":
        md = fn_meta
    else:
        md = None
    pristine = copy.deepcopy(md) if isinstance(md, dict) else None
    saver = ModelSaver(period, folder, "m{}.pt", save_initial=save_initial, metadata=md)
    snap = Snap()
    nv = shape[0]
    data = torch.tensor(pr.DATA[nv], dtype=torch.double)
    kw = dict(epochs=epochs, starting_epoch=start, pos_batch_size=2, k=1, lr=0.05,
              optimizer_args={"weight_decay": 0.05}, callbacks=[saver, snap])
    if typ != "positive":
        kw["input_bases"] = np.array([["Z"] * nv, ["X"] + ["Z"] * (nv - 1), ["Z"] * nv, ["Z"] * (nv - 1) + ["X"]])
    ud_before = {k: v.detach().clone() for k, v in m.unitary_dict.items()} if pr.HAS_U[typ] else None
    err = None
    with warnings.catch_warnings(), contextlib.redirect_stdout(io.StringIO()):
        warnings.simplefilter("ignore")
        try:
            m.fit(data, **kw)
        except Exception as ex:
            err = ex
    chk.evaluations += 1
    polluted = isinstance(md, dict) and not pr.deep_eq(md, pristine)
    if polluted:
        bad("caller-metadata-changed", dict(keys_before=sorted(pristine), keys_after=sorted(md)), known=True)
    if err is not None:
        bad("exception:" + type(err).__name__, dict(error=repr(err)[:300], files=sorted(os.listdir(folder))),
            known=polluted and isinstance(err, ValueError))
        return
    if polluted:
        return
    if saver.metadata is not md:
        bad("saver-metadata-rebound", {})
    expected = (["initial"] if save_initial else []) + [str(e) for e in range(start, epochs + 1) if e % period == 0]
    got = sorted(os.listdir(folder))
    if got != sorted("m%s.pt" % e for e in expected):
        bad("files-written", dict(expected=sorted("m%s.pt" % e for e in expected), got=got))
        return
    hashes = {pr.params_hash(snap.at[e]) for e in expected}
    for e in expected:
        path = os.path.join(folder, "m%s.pt" % e)
        try:
            d = torch.load(path)                  # the installed default, as the library itself calls it
        except Exception as ex:
            bad("file-unreadable", dict(file=e, error=repr(ex)[:300]))
            continue
        want_meta = (pristine if isinstance(md, dict) else
                     (fn_meta(m, 0 if e == "initial" else int(e)) if md is not None else {}))
        special = set(pr.NETS[typ]) | ({"unitary_dict"} if pr.HAS_U[typ] else set())
        if set(d) != special | set(want_meta):
            bad("file-keys", dict(file=e, expected=sorted(special | set(want_meta)), got=sorted(d)))
            continue
        x = pr.params_equal({n: dict(d[n]) for n in pr.NETS[typ]}, snap.at[e])
        if x:
            bad("file-parameters", dict(file=e, what=x, note="the file does not hold the parameters of that event"))
            continue
        if pr.HAS_U[typ]:
            x = pr.udict_equal(d["unitary_dict"], ud_before)
            if x or "H" not in d["unitary_dict"]:
                bad("file-unitary-dict", dict(file=e, what=x))
        if not pr.deep_eq({k: v for k, v in d.items() if k not in special}, want_meta):
            bad("file-metadata", dict(file=e, expected_keys=sorted(want_meta)))
        # give it back: autoload, and load into a fresh model of the same architecture
        back = []
        with warnings.catch_warnings():
            warnings.simplefilter("ignore")
            try:
                back.append(("autoload", cls.autoload(path)))
            except Exception as ex:
                bad("autoload-exception:" + type(ex).__name__, dict(file=e, error=repr(ex)[:300]))
            fresh = pr.arm(cls(*shape, gpu=False), fault)
            pr.nonzero_biases(fresh, rng)
            try:
                fresh.load(path)
                back.append(("load", fresh))
            except Exception as ex:
                bad("load-exception:" + type(ex).__name__, dict(file=e, error=repr(ex)[:300]))
        for who, obj in back:
            if type(obj) is not cls:
                bad(who + "-class", dict(file=e, got=type(obj).__name__))
                continue
            x = pr.params_equal(pr.model_params(obj), snap.at[e])
            if x:
                bad(who + "-parameters", dict(file=e, what=x))
            if pr.shape_of_model(obj, typ) != list(shape):
                bad(who + "-architecture", dict(file=e, expected=list(shape), got=pr.shape_of_model(obj, typ)))
            if pr.HAS_U[typ]:
                x = pr.udict_equal(obj.unitary_dict, ud_before)
                if x:
                    bad(who + "-unitary-dict", dict(file=e, what=x))
    if len(hashes) != len(expected):
        raise common.MachineryError("training did not move the parameters between two saver events: %r" % (desc,))
    x = pr.params_equal(pr.model_params(m), snap.at[expected[-1]]) if expected and expected[-1] == str(epochs) else None
    if x:
        bad("model-after-fit", dict(what=x))
    if len(expected) >= 2:
        chk.nontriv("saver:%s:%s:%s:%d:%s:%d" % (typ, tuple(shape), kind, epochs, save_initial, period))


def run_all(chk, tmpdir, seed, epochs=(2,), thorough=False):
    n = 0
    for typ in ("positive", "complex", "density"):
        for si, shape in enumerate(SHAPES[typ]):
            for kind in KINDS:
                for ep in epochs:
                    for save_initial in ((True, False) if thorough else (True,)):
                        for period in ((1, 2) if thorough and ep >= 3 else (1,)):
                            n += 1
                            scenario(chk, tmpdir, typ, shape, kind, ep, save_initial, period, seed + n,
                                     ctor_udict=(n % 2 == 0), start=1)
    # resumed training (starting_epoch > 1) with the same saver semantics
    for typ in ("complex", "density"):
        scenario(chk, tmpdir, typ, SHAPES[typ][0], "dict", 4, False, 1, seed + 1000, start=3)
    chk.extra["saver_fits"] = n + 2


def controls(chk, tmpdir, seed, control):
    """the saver scenario must notice an instance whose save() writes into the caller's dict, under the reserved key"""
    for typ in ("complex", "density"):
        ctl = common.Check(chk.pid, chk.tier, seed)
        ctl.findings = {"known": []}
        scenario(ctl, tmpdir, typ, SHAPES[typ][0], "dict", 2, True, 1, seed, fault="alias-meta")
        keys = {k for k, _ in ctl.violations}
        control(pr.KNOWN in keys, "ModelSaver with a save() that writes into the caller's dict: got %s" % sorted(keys))
    ctl = common.Check(chk.pid, chk.tier, seed)
    ctl.findings = {"known": []}
    scenario(ctl, tmpdir, "complex", SHAPES["complex"][1], "callable", 2, True, 1, seed, fault="drop-phase")
    control(any(k.startswith("saver:complex:callable:load-parameters") for k, _ in ctl.violations),
            "load() skipping rbm_ph went unnoticed in the saver scenario")
