"""Generic evaluator of the term language that leaves TLC (DESIGN section 3).
Knows + x sqrt ln cis and the factor form B^k * prod(1 + B^m); nothing about RBMs."""
from fractions import Fraction

import mpmath

mpmath.mp.dps = 50


def fac(B, k, ms):
    """exact value of B^k * prod_j (1 + B^ms[j])"""
    r = Fraction(B) ** k
    for m in ms:
        r *= 1 + Fraction(B) ** m
    return r


def mpf(q):
    if isinstance(q, Fraction):
        return mpmath.mpf(q.numerator) / mpmath.mpf(q.denominator)
    return mpmath.mpf(q)


def sqrt(q):
    return mpmath.sqrt(mpf(q))


def ln(q):
    return mpmath.log(mpf(q))


def cis(x):
    return mpmath.mpc(mpmath.cos(x), mpmath.sin(x))


def cis_half_ln(q):
    return cis(ln(q) / 2)


def ipow(k):
    return [mpmath.mpc(1, 0), mpmath.mpc(0, 1), mpmath.mpc(-1, 0), mpmath.mpc(0, -1)][k % 4]


def close(got, want, rel=1e-9, abs_=0.0):
    """|got - want| <= rel*|want| + abs_ ; want is an mpmath / Fraction exact value"""
    w = mpf(want) if not isinstance(want, (mpmath.mpf, mpmath.mpc)) else want
    g = mpmath.mpmathify(got)
    return abs(g - w) <= rel * abs(w) + abs_


def representable(q, limit=1e300):
    return abs(mpf(q)) < limit and (q == 0 or abs(mpf(q)) > 1e-300)
