"""spec -> code replay for C04: the cases TLC enumerated and exported (KronSweep.tla: input
and rotated array per basis string; Expand.tla: the expansion of every outcome; IndexWalk /
Unitaries.tla: the dense unitary's entries and the dictionary) are pushed through the real
rotate_psi, rotate_rho, rotate_psi_inner_prod, rotate_rho_probs.

Explicit-input paths are compared as exact integers (results times 2^(NFac/2), resp.
2^NFac); model-derived paths compare the library's output with the exported dense
structure applied to the library's own psi / rho numbers (1e-12)."""
import numpy as np
import torch

import common
import rot_lib as L
from rot_tlc import gmul, gconj, tup

un = L.un
FLOAT_TOL = 1e-12
FORMS = ["str", "list", "numpy", "tuple"]


class Tables:
    """everything TLC exported, indexed"""

    def __init__(self):
        self.dense = {}     # basis tuple -> dict(nfac, D (complex ndarray of Gaussian ints), Dint, rows)
        self.terms = {}     # (basis tuple, sig) -> list of dict(v, u, idx)
        self.dict = {}      # letter -> dict(u, fac)
        self.rows = {}      # n -> list of rows

    def add_walk(self, exports):
        for e in exports:
            if "dense" in e:
                b = tuple(e["basis"])
                self.dense[b] = dict(nfac=e["nfac"], D=L.cnum(e["dense"]), Dint=tup(e["dense"]), rows=e["rows"])
                self.rows[len(b)] = e["rows"]
            elif "letter" in e:
                self.dict[e["letter"]] = dict(u=e["u"], fac=e["fac"])

    def add_terms(self, exports):
        for e in exports:
            if "terms" in e:
                self.terms[(tuple(e["basis"]), e["sig"])] = e

    def fac(self):
        return {k: v["fac"] for k, v in self.dict.items()}

    def terms_of(self, letters, k):
        try:
            return self.terms[(tuple(letters), k)]["terms"]
        except KeyError:
            raise common.MachineryError("no exported expansion for %s / outcome %d" % ("".join(letters), k))


def library_dict(tb, letters, form_no):
    """a dictionary for the string: None (the state's own default) when only X, Y, Z occur and the
    round-robin says so, else create_dict(**user) built from the exported integer matrices"""
    user = sorted(set(letters) - {"X", "Y", "Z"})
    if not user and form_no % 2 == 0:
        return None
    forms = ["tensor", "numpy"]      # (nested python lists are stored in single precision by create_dict: not exact)
    kw = {b: L.user_matrix(tb.dict[b]["u"], tb.dict[b]["fac"], forms[(form_no + i) % 2]) for i, b in enumerate(user)}
    return un.create_dict(**kw)


# An explicitly supplied psi / rho is the caller's tensor: the same values may sit in memory contiguously, as a
# view with the last two axes transposed in storage, or as every second element of a wider buffer.
LAYOUTS = ("contiguous", "transposed-storage", "strided")


def relayout(t, c):
    kind = LAYOUTS[c % len(LAYOUTS)]
    if kind == "transposed-storage" and t.dim() >= 3:
        return t.transpose(-1, -2).contiguous().transpose(-1, -2)
    if kind == "transposed-storage":
        return t.t().contiguous().t()                   # (2, N) stored as (N, 2)
    if kind == "strided":
        big = torch.full(tuple(t.shape[:-1]) + (2 * t.shape[-1],), 77.0, dtype=t.dtype)
        big[..., ::2] = t
        return big[..., ::2]
    return t


class Replayer:
    def __init__(self, chk, tb, rng):
        self.chk, self.tb, self.rng = chk, tb, rng
        self.count = 0

    # ---------------------------------------------------------------- plumbing
    def setup(self, kind, letters):
        """state object, unitaries argument, basis in one of its accepted forms, space"""
        self.count += 1
        c = self.count
        n = len(letters)
        ud = library_dict(self.tb, letters, c)
        skind = "density" if kind == "rho" else ("positive" if c % 3 == 0 else "complex")
        if skind == "positive" and ud is None and c % 2:
            ud = un.create_dict()                      # PositiveWaveFunction carries no dictionary: passed explicitly,
                                                       # or (every other case) left to the default-dictionary fallback
        if ud is not None and skind != "positive" and c % 4 == 1:
            state, arg = L.state_for(skind, n, unitary_dict=ud), None      # dictionary through the constructor
        else:
            state, arg = L.state_for(skind, n), ud
        basis = L.basis_form(letters, FORMS[c % 4])
        space = L.space_tensor(self.tb.rows[n])
        if c % 5 == 2:
            # the enumerations the library hands out are the caller's: used as scratch here (as sample() with
            # overwrite=True would) before the rotation, for every size the fast paths may ask for themselves
            for k in range(1, n + 1):
                state.generate_hilbert_space(k).fill_(0.5)
        return state, arg, basis, space, dict(state=skind, basis_form=FORMS[c % 4],
                                              unitaries="argument" if arg is not None else "state's own")

    def batch(self, n):
        N = 2 ** n
        B = self.rng.choice([1, 2, N, N + 3, 2 * N])
        idxs = [self.rng.randrange(N) for _ in range(B)]          # repeats, arbitrary order
        return idxs, L.space_tensor([self.tb.rows[n][k] for k in idxs])

    BIG = (129, 300, 1500, 5000, 20000, 70001)

    def big_batch(self, letters):
        """a batch far longer than the basis (a sample set, as in training and in KL/NLL): sizes straddling
        powers of two, bounded so that the expansion (4^k terms per row for rho) stays small"""
        n = len(letters)
        k = sum(1 for b in letters if b != "Z")
        ok = [B for B in self.BIG if B * 4 ** k <= 1_200_000] or [129]
        B = ok[-1] if self.rng.random() < 0.5 else self.rng.choice(ok)
        idxs = np.array([self.rng.randrange(2 ** n) for _ in range(B)])
        return idxs, L.space_tensor(self.tb.rows[n])[idxs]

    def cls(self, letters):
        return "user" if set(letters) - {"X", "Y", "Z"} else "xyz"

    def bad(self, key, case, how, **kw):
        d = dict(basis="".join(case["basis"]), fam=case.get("fam"), x=case.get("x"), nfac=case.get("nfac"), how=how,
                 user={b: self.tb.dict[b] for b in set(case["basis"]) - {"X", "Y", "Z"}})
        d.update(kw)
        self.chk.violation(key, d)

    # ---------------------------------------------------------------- explicit psi
    def psi_case(self, case):
        letters = tuple(case["basis"])
        n, nf, x, y = len(letters), case["nfac"], case["x"], case["y"]
        state, arg, basis, space, how = self.setup("psi", letters)
        t = relayout(L.vec_tensor(x), self.count)
        how["layout"] = LAYOUTS[self.count % len(LAYOUTS)]
        sc = L.sqrt2pow(nf)
        cls = self.cls(letters)
        out = un.rotate_psi(state, basis, space, unitaries=arg, psi=t)
        got, err = L.to_gauss(out, sc)
        self.chk.evaluations += 1
        if err > L.INT_TOL or got != y:
            self.bad("rotate_psi:explicit-psi:" + cls, case, how, expected=y, got=got, non_integer=err)
        idxs, states = self.batch(n)
        amp = un.rotate_psi_inner_prod(state, basis, states, unitaries=arg, psi=t)
        got, err = L.to_gauss(amp, sc)
        self.chk.evaluations += 1
        exp = [y[k] for k in idxs]
        if err > L.INT_TOL or got != exp:
            self.bad("rotate_psi_inner_prod:explicit-psi:" + cls, case, how, outcomes=idxs, expected=exp, got=got)
        if self.count % 3 == 1:       # linearity: the same vector in other units (see rho_case)
            for e2 in (-50, 40):
                f = 2.0 ** e2
                got2, err2 = L.to_gauss(un.rotate_psi_inner_prod(state, basis, states, unitaries=arg, psi=t * f) / f, sc)
                gotv, errv = L.to_gauss(un.rotate_psi(state, basis, space, unitaries=arg, psi=t * f) / f, sc)
                self.chk.evaluations += 2
                if err2 > L.INT_TOL or got2 != exp:
                    self.bad("rotate_psi_inner_prod:explicit-psi:scaled:" + cls, case, how, factor="2^%d" % e2, expected=exp, got=got2)
                if errv > L.INT_TOL or gotv != y:
                    self.bad("rotate_psi:explicit-psi:scaled:" + cls, case, how, factor="2^%d" % e2, expected=y, got=gotv)
        if self.count % 9 == 0:
            bi, bs = self.big_batch(letters)
            got = L.cplx.numpy(un.rotate_psi_inner_prod(state, basis, bs, unitaries=arg, psi=t)) * sc
            want = np.array([complex(*q) for q in y])[bi]
            self.chk.evaluations += 1
            if got.shape != want.shape or np.max(np.abs(got - want)) > L.INT_TOL * max(1.0, float(np.max(np.abs(want)))):
                self.bad("rotate_psi_inner_prod:large-batch:explicit-psi:" + cls, case, how, rows=len(bi))
        # include_extras: the terms of the expansion, paired with the expanded rows
        tot, terms, v = un.rotate_psi_inner_prod(state, basis, states, unitaries=arg, psi=t, include_extras=True)
        gt, e1 = L.to_gauss(tot, sc)
        gterms, e2 = L.to_gauss(terms, sc)          # [t][b] -> [re, im]
        vv = v.detach().cpu().numpy()
        self.chk.evaluations += 1
        ok = max(e1, e2) <= L.INT_TOL and gt == exp
        for b, k in enumerate(idxs):
            spec = self.tb.terms_of(letters, k)
            want = {tuple(tm["v"]): gmul(tuple(tm["u"]), tuple(x[tm["idx"]])) for tm in spec}
            have = {tuple(int(round(z)) for z in vv[ti, b]): tuple(gterms[ti][b]) for ti in range(len(gterms))}
            if want != have or len(gterms) != len(spec):
                ok = False
        if not ok:
            self.bad("rotate_psi_inner_prod:extras:" + cls, case, how, outcomes=idxs)
        return dict(basis="".join(letters), x=x, rotated=y, outcomes=idxs)

    # ---------------------------------------------------------------- explicit rho
    def rho_case(self, case):
        letters = tuple(case["basis"])
        n, nf, x, y = len(letters), case["nfac"], case["x"], case["y"]
        N = 2 ** n
        state, arg, basis, space, how = self.setup("rho", letters)
        t = relayout(L.mat_tensor(x), self.count)
        how["layout"] = LAYOUTS[self.count % len(LAYOUTS)]
        sc = L.sqrt2pow(2 * nf)
        cls = self.cls(letters)
        out = un.rotate_rho(state, basis, space, unitaries=arg, rho=t)
        got, err = L.to_gauss(out, sc)
        self.chk.evaluations += 1
        if err > L.INT_TOL or got != y:
            self.bad("rotate_rho:explicit-rho:" + cls, case, how, expected=y, got=got, non_integer=err)
        idxs, states = self.batch(n)
        diag = [y[k][k][0] for k in idxs]
        # what the transposed matrix would give: dense structure exported by TLC applied to x^T
        D = self.tb.dense[letters]["Dint"]
        xt = [[tuple(x[j][i]) for j in range(N)] for i in range(N)]
        diag_t = [self.quad(D[k], xt)[0] for k in idxs]
        pr = un.rotate_rho_probs(state, basis, states, unitaries=arg, rho=t)
        got, err = L.to_ints(pr, sc)
        self.chk.evaluations += 1
        if err > L.INT_TOL or got != diag:
            transposed = err <= L.INT_TOL and got == diag_t
            self.bad("rotate_rho_probs:explicit-rho" if transposed else "rotate_rho_probs:explicit-rho:other:" + cls,
                     case, how, outcomes=idxs, expected=diag, got=got,
                     note="equals diag(U rho^T U^H)" if transposed else "")
        if self.count % 3 == 1:
            # rotation is linear: the same matrix in other units (a power of two: exact in binary floating point)
            # gives the same integers after scaling back - a state need not be normalised, small entries are entries
            for e2 in (-50, 40):
                f = 2.0 ** e2
                pr2 = un.rotate_rho_probs(state, basis, states, unitaries=arg, rho=t * f)
                got2, err2 = L.to_ints(pr2 / f, sc)
                out2 = un.rotate_rho(state, basis, space, unitaries=arg, rho=t * f)
                gotm, errm = L.to_gauss(out2 / f, sc)
                self.chk.evaluations += 2
                if err2 > L.INT_TOL or got2 != diag:
                    self.bad("rotate_rho_probs:explicit-rho:scaled:" + cls, case, how, factor="2^%d" % e2, outcomes=idxs,
                             expected=diag, got=got2)
                if errm > L.INT_TOL or gotm != y:
                    self.bad("rotate_rho:explicit-rho:scaled:" + cls, case, how, factor="2^%d" % e2, expected=y, got=gotm)
        if self.count % 9 == 0:
            bi, bs = self.big_batch(letters)
            got = un.rotate_rho_probs(state, basis, bs, unitaries=arg, rho=t).detach().cpu().numpy() * sc
            want = np.array([float(y[k][k][0]) for k in range(N)])[bi]
            self.chk.evaluations += 1
            if got.shape != want.shape or np.max(np.abs(got - want)) > L.INT_TOL * max(1.0, float(np.max(np.abs(want)))):
                self.bad("rotate_rho_probs:large-batch:explicit-rho:" + cls, case, how, rows=len(bi))
        tot, terms, v = un.rotate_rho_probs(state, basis, states, unitaries=arg, rho=t, include_extras=True)
        gt, e1 = L.to_ints(tot, sc)
        gterms, e2 = L.to_gauss(terms, sc)          # [t][t2][b]
        vv = v.detach().cpu().numpy()
        self.chk.evaluations += 1
        ok = max(e1, e2) <= L.INT_TOL
        transposed = ok
        for b, k in enumerate(idxs):
            spec = self.tb.terms_of(letters, k)
            vrow = [tuple(int(round(z)) for z in vv[ti, b]) for ti in range(vv.shape[0])]
            if sorted(vrow) != sorted(tuple(tm["v"]) for tm in spec) or len(gterms) != len(spec):
                ok = transposed = False
                continue
            # terms keyed by the pair of expanded rows they belong to; either axis order is accepted
            have = {(vrow[a], vrow[c]): tuple(gterms[a][c][b]) for a in range(len(vrow)) for c in range(len(vrow))}
            have_sw = {(q[1], q[0]): w for q, w in have.items()}
            want = {(tuple(ta["v"]), tuple(tc["v"])): gmul(gmul(tuple(ta["u"]), gconj(tuple(tc["u"]))), tuple(x[ta["idx"]][tc["idx"]]))
                    for ta in spec for tc in spec}
            want_t = {(tuple(ta["v"]), tuple(tc["v"])): gmul(gmul(tuple(ta["u"]), gconj(tuple(tc["u"]))), tuple(x[tc["idx"]][ta["idx"]]))
                      for ta in spec for tc in spec}
            ok = ok and (have == want or have_sw == want)
            transposed = transposed and have == want_t
        if not ok:
            self.bad("rotate_rho_probs:explicit-rho" if transposed else "rotate_rho_probs:extras:" + cls,
                     case, how, outcomes=idxs, note="terms are those of rho^T" if transposed else "")
        return dict(basis="".join(letters), fam=case["fam"], rotated_diag=[y[k][k][0] for k in range(N)], outcomes=idxs)

    @staticmethod
    def quad(drow, m):
        """sum_{a,c} drow[a] * m[a][c] * conj(drow[c])  (Gaussian integers)"""
        acc = (0, 0)
        for a, da in enumerate(drow):
            if da == (0, 0):
                continue
            for c, dc in enumerate(drow):
                if dc == (0, 0):
                    continue
                w = gmul(gmul(da, m[a][c]), gconj(dc))
                acc = (acc[0] + w[0], acc[1] + w[1])
        return acc

    # ---------------------------------------------------------------- model-derived paths
    def model_case(self, skind, letters, gen):
        """psi=None / rho=None: the library's rotation of the model's own state against the exported
        dense structure applied to the library's own psi(space) / rho(space, space)"""
        tb = self.tb
        n = len(letters)
        self.count += 1
        c = self.count
        ud = library_dict(tb, letters, c)
        if skind == "positive" and ud is None and c % 4 < 2:
            ud = un.create_dict()
        if ud is not None and skind != "positive" and c % 2:
            state, arg = L._make(skind, n, ud), None
        else:
            state, arg = L._make(skind, n, None), ud
        L.randomise(state, gen)
        basis = L.basis_form(letters, FORMS[c % 4])
        space = L.space_tensor(tb.rows[n])
        dd = tb.dense[letters]
        Dm = dd["D"] / L.sqrt2pow(dd["nfac"])
        idxs, states = self.batch(n)
        how = dict(state=skind, basis="".join(letters), basis_form=FORMS[c % 4], outcomes=idxs)
        Z = float(state.normalization(space))
        if skind != "density":
            psi = L.cplx.numpy(state.psi(space))
            exp = Dm @ psi
            tol = FLOAT_TOL * max(1.0, float(np.max(np.abs(psi))))
            got = L.cplx.numpy(un.rotate_psi(state, basis, space, unitaries=arg))
            self.chk.evaluations += 1
            if not np.allclose(got, exp, rtol=0, atol=tol):
                self.chk.violation("rotate_psi:model:" + skind, dict(how, err=float(np.max(np.abs(got - exp)))))
            tot, terms, v = un.rotate_psi_inner_prod(state, basis, states, unitaries=arg, include_extras=True)
            got = L.cplx.numpy(un.rotate_psi_inner_prod(state, basis, states, unitaries=arg))
            self.chk.evaluations += 1
            if not np.allclose(got, exp[idxs], rtol=0, atol=tol) or not np.allclose(L.cplx.numpy(tot), exp[idxs], rtol=0, atol=tol):
                self.chk.violation("rotate_psi_inner_prod:model:" + skind, dict(how, err=float(np.max(np.abs(got - exp[idxs])))))
            tt, vv = L.cplx.numpy(terms), v.detach().cpu().numpy()
            ok = True
            for b, k in enumerate(idxs):
                spec = tb.terms_of(letters, k)
                want = {tuple(tm["v"]): complex(*tm["u"]) / L.sqrt2pow(dd["nfac"]) * psi[tm["idx"]] for tm in spec}
                have = {tuple(int(round(z)) for z in vv[ti, b]): tt[ti, b] for ti in range(tt.shape[0])}
                ok = ok and set(want) == set(have) and all(abs(want[q] - have[q]) <= tol for q in want)
            if not ok:
                self.chk.violation("rotate_psi_inner_prod:extras:model:" + skind, how)
            if c % 3 == 0:
                bi, bs = self.big_batch(letters)
                got = L.cplx.numpy(un.rotate_psi_inner_prod(state, basis, bs, unitaries=arg))
                self.chk.evaluations += 1
                if got.shape != (len(bi),) or not np.allclose(got, exp[bi], rtol=0, atol=tol):
                    w = int(np.argmax(np.abs(got - exp[bi]))) if got.shape == (len(bi),) else -1
                    self.chk.violation("rotate_psi_inner_prod:large-batch:model:" + skind, dict(how, outcomes=None, rows=len(bi), worst_row=w))
            # probabilities of the (physical) model state sum to its normalisation in every basis
            p = np.abs(got_full(un, state, basis, space, arg)) ** 2
            if abs(p.sum() - Z) > 1e-10 * Z:
                self.chk.violation("normalisation:model:" + skind, dict(how, total=float(p.sum()), Z=Z))
        else:
            rho = L.cplx.numpy(state.rho(space, space))
            exp = Dm @ rho @ Dm.conj().T
            tol = FLOAT_TOL * max(1.0, float(np.max(np.abs(rho))))
            got = L.cplx.numpy(un.rotate_rho(state, basis, space, unitaries=arg))
            self.chk.evaluations += 1
            if not np.allclose(got, exp, rtol=0, atol=tol):
                self.chk.violation("rotate_rho:model", dict(how, err=float(np.max(np.abs(got - exp)))))
            pr = un.rotate_rho_probs(state, basis, states, unitaries=arg).detach().cpu().numpy()
            tot, terms, v = un.rotate_rho_probs(state, basis, states, unitaries=arg, include_extras=True)
            self.chk.evaluations += 1
            ed = np.real(np.diag(exp))
            if not np.allclose(pr, ed[idxs], rtol=0, atol=tol) or not np.allclose(tot.detach().cpu().numpy(), ed[idxs], rtol=0, atol=tol):
                self.chk.violation("rotate_rho_probs:model", dict(how, err=float(np.max(np.abs(pr - ed[idxs])))))
            tt, vv = L.cplx.numpy(terms), v.detach().cpu().numpy()
            ok = True
            for b, k in enumerate(idxs):
                spec = tb.terms_of(letters, k)
                vrow = [tuple(int(round(z)) for z in vv[ti, b]) for ti in range(vv.shape[0])]
                if sorted(vrow) != sorted(tuple(tm["v"]) for tm in spec):
                    ok = False
                    continue
                want = {(tuple(ta["v"]), tuple(tc["v"])): complex(*ta["u"]) * complex(*tc["u"]).conjugate()
                        / L.sqrt2pow(2 * dd["nfac"]) * rho[ta["idx"], tc["idx"]] for ta in spec for tc in spec}
                straight = all(abs(want[(vrow[a], vrow[c])] - tt[a, c, b]) <= tol for a in range(len(vrow)) for c in range(len(vrow)))
                swapped = all(abs(want[(vrow[c], vrow[a])] - tt[a, c, b]) <= tol for a in range(len(vrow)) for c in range(len(vrow)))
                ok = ok and (straight or swapped)
            if not ok:
                self.chk.violation("rotate_rho_probs:extras:model", how)
            if c % 3 == 0:
                bi, bs = self.big_batch(letters)
                got = un.rotate_rho_probs(state, basis, bs, unitaries=arg).detach().cpu().numpy()
                self.chk.evaluations += 1
                if got.shape != (len(bi),) or not np.allclose(got, ed[bi], rtol=0, atol=tol):
                    w = int(np.argmax(np.abs(got - ed[bi]))) if got.shape == (len(bi),) else -1
                    self.chk.violation("rotate_rho_probs:large-batch:model", dict(how, outcomes=None, rows=len(bi), worst_row=w))
            full = un.rotate_rho_probs(state, basis, space, unitaries=arg).detach().cpu().numpy()
            if full.min() < -1e-12 * Z or abs(full.sum() - Z) > 1e-10 * Z:
                self.chk.violation("normalisation:model:density", dict(how, minimum=float(full.min()), total=float(full.sum()), Z=Z))
        return how


def got_full(un_, state, basis, space, arg):
    return L.cplx.numpy(un_.rotate_psi(state, basis, space, unitaries=arg))
