"""C12 extension - an UNBOUNDED safety argument for the stop protocol (DESIGN.md section 8,
'Tooling notes'), complementing TLC's bounded exploration of spec/Train.tla.

spec/TrainInd.tla is the history-free control skeleton of NeuralStateBase.fit (integers and
booleans only; same pc labels / guards as Train.tla; ghost counters instead of the history).
Its invariant IndInv == TypeOK /\\ S1 /\\ ... /\\ S6 /\\ Aux is shown INDUCTIVE by Apalache
(SMT, unbounded integers) for all startEp, epochs, nb, nets, scheduler on/off and every
pattern of stop requests:

    O1  Init => IndInv                         apalache-mc check --init=Init   --inv=IndInv  --length=0
    O2  IndInv /\\ Next => IndInv'              apalache-mc check --init=IndInv --inv=IndInv  --length=1
    O3  IndInv /\\ Next => StepInv (per step)   apalache-mc check --init=IndInv --inv=StepInv --length=1

Negative controls: deliberately broken skeletons (`break` after batch end / epoch end removed,
a callback clearing the flag, a parameter change outside OptStep, one batch too many, early
return removed) must each yield a counterexample; for the first one also a REACHABLE violation
of S1 (bounded run from Init).  TLC checks the same module on small bounds (the two tools must
agree, on the sound and on the broken skeleton) and checks that Train.tla - the specification
that is bound to the real fit() - refines TrainInd.tla with the ghosts computed from the
observable history (spec/TrainIndRef.tla).

Nothing here depends on /repo: it is an argument about the specification.  If Apalache is
unavailable, times out or errors, that is neither a violation nor a machinery failure of C12:
chk.extra["apalache"] = {"status": "skipped", "why": ...} (the TLC checks stay the deciding
ones).  Only a genuine counterexample on the UNBROKEN skeleton is reported as a violation.
"""
import glob
import os
import re
import shutil
import subprocess
import tempfile
import time

import tlc

MODULE = "TrainInd"
TIMEOUT = 180                      # seconds per Apalache query (enforced by timeout(1))
CANDIDATES = ["apalache-mc", "/usr/local/bin/apalache-mc", "/opt/veriftools/apalache/bin/apalache-mc"]

# the proof obligations (unbroken skeleton): name, init, inv, length, meaning
OBLIGATIONS = [
    ("O1:init", "Init", "IndInv", 0, "Init => IndInv"),
    ("O2:step", "IndInv", "IndInv", 1, "IndInv /\\ Next => IndInv'"),
    ("O3:action", "IndInv", "StepInv", 1, "IndInv /\\ Next => StepInv (stop sticky, pver only in OptStep, ...)"),
]
# broken skeletons: next-state relation, the property it is meant to break, tiers
BROKEN = [
    ("NextNoBreakBE", "S1", "`break` after on_batch_end removed", ("quick", "thorough")),
    ("NextNoBreakEE", "S1", "`break` after on_epoch_end removed", ("thorough",)),
    ("NextClearStop", "S2", "on_epoch_start clears the request", ("thorough",)),
    ("NextLeakyPver", "S3", "scheduler step changes the parameters", ("thorough",)),
    ("NextOffByOne", "S4", "batch loop runs while b + 1 <= nb", ("thorough",)),
    ("NextNoEarlyReturn", "S5", "early return at entry removed", ("thorough",)),
]
PARTS = ["TypeOK", "S1", "S2", "S3", "S4", "S5", "S6", "Aux"]

# a tiny space with a second fit() on the same callbacks (Restart)
REF_TINY = '''{ [type |-> "positive", startEp |-> 1, epochs |-> 2, N |-> 2, posB |-> 1, negB |-> 0,
       data |-> <<1, 2>>, bases |-> <<>>, sched |-> FALSE, entryStop |-> es, again |-> ag, perms |-> "id",
       cbs |-> <<[t |-> "rec"]>>, vals |-> <<>>, vars |-> <<>>] :
       es \\in BOOLEAN, ag \\in {"no", "keep", "keepStop"} }'''
# Train.tla configurations for the refinement check (first callback records)
REF_SPACE = [
    '''{ [type |-> "positive", startEp |-> s, epochs |-> e, N |-> nb[1], posB |-> nb[2], negB |-> 0,
       data |-> [i \\in 1..nb[1] |-> i], bases |-> <<>>, sched |-> sc, entryStop |-> es, again |-> "no",
       perms |-> "id", cbs |-> cb, vals |-> <<>>, vars |-> <<>>] :
       s \\in {0, 2}, e \\in 0..3, nb \\in {<<1,1>>, <<2,1>>, <<3,1>>}, sc \\in BOOLEAN, es \\in BOOLEAN,
       cb \\in {<<[t |-> "rec"]>>, <<[t |-> "rec"], [t |-> "rec"]>>} }''',
    '''{ [type |-> ty, startEp |-> 1, epochs |-> e, N |-> 3, posB |-> 2, negB |-> 0,
       data |-> <<1, 2, 3>>, bases |-> <<0, 1, 0>>, sched |-> FALSE, entryStop |-> FALSE, again |-> "no",
       perms |-> "id", cbs |-> <<[t |-> "rec"]>>, vals |-> <<>>, vars |-> <<>>] :
       ty \\in {"complex", "density"}, e \\in 1..2 }''',
    REF_TINY,
]


class _Unavailable(Exception):
    """Apalache missing / timed out / errored: skip, never a violation."""


def _find_tool():
    for c in CANDIDATES:
        p = shutil.which(c) if os.sep not in c else (c if os.access(c, os.X_OK) else None)
        if p:
            return p
    return None


_OUTCOME = re.compile(r"The outcome is: (\w+)")
_CHECKING = re.compile(r"Checking (\d+) (?:state|action) invariants")
_HOLDS = re.compile(r"(?:state|action) invariant \d+ holds\.")
_VIOLATED = re.compile(r"(?:state|action) invariant (\d+) violated")


def _query(tool, scratch, name, init, inv, length, next_="Next", module=None):
    """One `apalache-mc check`; returns a record.  Raises _Unavailable on timeout / tool error."""
    out_dir = os.path.join(scratch, "out-" + re.sub(r"\W", "_", name))
    cmd = ["timeout", "-k", "5", str(TIMEOUT), tool, "check", "--init=" + init, "--next=" + next_,
           "--inv=" + inv, "--length=%d" % length, "--out-dir=" + out_dir,
           "--run-dir=" + os.path.join(out_dir, "run"), (module or MODULE) + ".tla"]
    env = dict(os.environ)
    env.pop("JAVA_TOOL_OPTIONS", None)
    env["TMPDIR"] = os.path.join(scratch, "tmp")         # the launcher makes its SANY dir there
    env.setdefault("JVM_ARGS", "-Xmx2g")
    t0 = time.time()
    try:
        p = subprocess.run(cmd, cwd=scratch, env=env, stdout=subprocess.PIPE, stderr=subprocess.STDOUT,
                           text=True, timeout=TIMEOUT + 30)
    except subprocess.TimeoutExpired:
        subprocess.run(["pkill", "-f", scratch], check=False)
        raise _Unavailable("%s: no answer within %ds" % (name, TIMEOUT + 30))
    except OSError as ex:
        raise _Unavailable("%s: cannot run apalache-mc / timeout: %r" % (name, ex))
    wall = time.time() - t0
    text = p.stdout
    rec = dict(name=name, cmd=" ".join(["timeout", str(TIMEOUT), "apalache-mc"] + [
        a.replace(scratch, "<tmp>") for a in cmd[5:]]), wall_s=round(wall, 2), returncode=p.returncode)
    if p.returncode in (124, 137):
        raise _Unavailable("%s: timeout(1) killed apalache-mc after %ds" % (name, TIMEOUT))
    m = _OUTCOME.search(text)
    rec["outcome"] = m.group(1) if m else None
    rec["vcs"] = sum(int(x) for x in _CHECKING.findall(text))
    rec["vcs_discharged"] = len(_HOLDS.findall(text))
    if rec["outcome"] == "NoError" and p.returncode == 0:
        return rec
    if rec["outcome"] == "Error" and _VIOLATED.search(text):
        rec["violated_conjunct"] = int(_VIOLATED.search(text).group(1))
        cex = sorted(glob.glob(os.path.join(out_dir, "**", "violation1.tla"), recursive=True))
        if cex:
            with open(cex[-1]) as fh:
                body = fh.read()
            mv = re.search(r"InvariantViolation ==\s*(.*?)\n\s*\n?=====", body, re.S)
            rec["violated"] = " ".join((mv.group(1) if mv else "").split())[:600]
            rec["trace_pc"] = re.findall(r'pc = "(\w+)"', body)
            states = re.findall(r"\nState\d+ ==\n(.*?)\n\n", body, re.S)
            rec["last_states"] = [" ".join(s.split()) for s in states[-2:]]
        return rec
    # anything else (parse / type error, deadlock report, crash): the tool did not answer the question
    tail = " | ".join(ln.strip() for ln in text.splitlines()[-6:])
    raise _Unavailable("%s: unexpected result rc=%s outcome=%s: %s" % (name, p.returncode, rec["outcome"], tail[:500]))


def _apalache(chk, tier, info):
    tool = _find_tool()
    if tool is None or shutil.which("timeout") is None:
        raise _Unavailable("apalache-mc (or timeout) not found")
    scratch = tempfile.mkdtemp(prefix="verif-apalache-")
    try:
        os.makedirs(os.path.join(scratch, "tmp"))
        shutil.copy(os.path.join(tlc.SPEC, MODULE + ".tla"), scratch)
        try:
            v = subprocess.run([tool, "version"], cwd=scratch, stdout=subprocess.PIPE, stderr=subprocess.STDOUT,
                               text=True, timeout=60, env=dict(os.environ, TMPDIR=os.path.join(scratch, "tmp")))
            info["version"] = (v.stdout.strip().splitlines() or ["?"])[-1]
        except (OSError, subprocess.TimeoutExpired) as ex:
            raise _Unavailable("apalache-mc version failed: %r" % (ex,))
        # -- the obligations on the unbroken skeleton
        obligations = OBLIGATIONS if tier == "thorough" else OBLIGATIONS[:2]
        cex = []
        for name, init, inv, length, meaning in obligations:
            rec = _query(tool, scratch, name, init, inv, length)
            rec["obligation"] = meaning
            info["queries"].append(rec)
            info["obligations"] += 1
            info["vcs"] += rec["vcs"]
            info["vcs_discharged"] += rec["vcs_discharged"]
            if rec["outcome"] == "NoError":
                info["discharged"] += 1
            else:
                cex.append(rec)
        for rec in cex:
            chk.violation("ext:apalache:inductive-invariant",
                          dict(note="specification-level: counterexample on the UNBROKEN spec/TrainInd.tla",
                               obligation=rec["obligation"], cmd=rec["cmd"], violated=rec.get("violated"),
                               trace_pc=rec.get("trace_pc"), states=rec.get("last_states")))
        if cex:
            info["status"] = "counterexample"
            return
        # -- negative controls: every broken skeleton must fail the inductive step
        for nxt, prop, what, tiers in BROKEN:
            if tier not in tiers:
                continue
            rec = _query(tool, scratch, "control:" + nxt, "IndInv", "IndInv", 1, next_=nxt)
            rec["breaks"], rec["what"] = prop, what
            rec.pop("last_states", None)
            info["controls"].append(rec)
            chk.control(rec["outcome"] == "Error",
                        "IndInv is still inductive for the broken skeleton %s (%s)" % (nxt, what))
        # a reachable violation of S1 itself: Entry TS SH ES BS CG ZG AS OS BE -> BS with a stop in force
        rec = _query(tool, scratch, "control:reach:NextNoBreakBE", "Init", "S1", 11, next_="NextNoBreakBE")
        rec["breaks"], rec["what"] = "S1", "bounded run from Init, `break` after on_batch_end removed"
        rec.pop("last_states", None)
        info["controls"].append(rec)
        chk.control(rec["outcome"] == "Error" and rec.get("trace_pc", [])[-2:] == ["BE", "BS"],
                    "no reachable S1 violation found without the break after batch end")
        info["status"] = "proved"
    finally:
        shutil.rmtree(scratch, ignore_errors=True)


def _tlc_cross(chk, tier, info):
    """TLC on the same module (small bounds) and the refinement Train.tla => TrainInd.tla."""
    out = info["tlc"]
    res = tlc.run(MODULE, init="MCInit", invariants=PARTS, properties=["StepProp"], workers=8, heap="4g",
                  timeout=600)
    chk.add_tlc(res, "TrainInd.tla cross-check (MCInit)")
    out.append(dict(label="TrainInd MCInit: TypeOK S1-S6 Aux, [][StepInv]_vars", **res.summary()))
    if res.violation:
        chk.violation("ext:apalache:inductive-invariant",
                      dict(note="specification-level: TLC finds a reachable state of spec/TrainInd.tla outside "
                                "IndInv" + ("; Apalache reported it inductive - the tools DISAGREE"
                                            if info["status"] == "proved" else ""),
                           violated=str(res.violation), tlc=res.raw[-3000:]))
    bad = tlc.run(MODULE, init="MCInit", next="NextNoBreakBE", invariants=PARTS, workers=8, heap="4g", timeout=600)
    out.append(dict(label="TrainInd MCInit, NextNoBreakBE (must violate S1)", **bad.summary()))
    chk.control(bad.violation == "S1", "TLC accepts the skeleton without the break after batch end (got %r)"
                % (bad.violation,))
    info["tools_agree"] = (None if info["status"] not in ("proved", "counterexample") else
                           (info["status"] == "proved") == (res.violation is None))
    # -- Train.tla refines TrainInd.tla (ghosts computed from the observable history)
    shards = REF_SPACE if tier == "thorough" else REF_SPACE[2:]
    body = " [] ".join("shardNo = %d -> %s" % (i + 1, t) for i, t in enumerate(shards))
    defs = {"Shards": "1..%d" % len(shards), "CfgsOf(shardNo)": "CASE " + body}
    ref = tlc.run("TrainIndRef", constants={"MaxInj": 2}, defs=defs, invariants=["RefInit", "RefInv"],
                  properties=["RefStep"], workers=8, heap="4g", timeout=900)
    chk.add_tlc(ref, "TrainIndRef.tla: Train refines TrainInd")
    out.append(dict(label="Train.tla => TrainInd.tla (RefInit, RefInv, [][RefStepAct]_vars)", **ref.summary()))
    if ref.violation:
        chk.violation("ext:tlc:train-refines-trainind",
                      dict(note="specification-level: a step / state of spec/Train.tla is not one of the skeleton "
                                "spec/TrainInd.tla (the unbounded argument would not cover Train.tla)",
                           violated=str(ref.violation), tlc=ref.raw[-3000:]))
    tiny = {"Shards": "1..1", "CfgsOf(shardNo)": REF_TINY}
    bad = tlc.run("TrainIndRef", constants={"MaxInj": 1}, defs=tiny, properties=["RefStepNoBreak"],
                  workers=4, heap="2g", timeout=300)
    out.append(dict(label="Train.tla => skeleton without break (must fail)", **bad.summary()))
    chk.control(bad.violation is not None and "RefStepNoBreak" in str(bad.violation),
                "Train.tla refines the skeleton without the break after batch end (got %r)" % (bad.violation,))


def run(chk, tier, seed):
    """Extend the C12 check `chk`; deterministic (no randomness, `seed` unused)."""
    info = dict(status="pending", module="spec/TrainInd.tla", queries=[], controls=[], tlc=[],
                obligations=0, discharged=0, vcs=0, vcs_discharged=0,
                invariant="IndInv == TypeOK /\\ S1 /\\ S2 /\\ S3 /\\ S4 /\\ S5 /\\ S6 /\\ Aux",
                quantifier="all integers startEp, epochs, pver0; all nb >= 1, nets >= 1; scheduler on/off; "
                           "stop at entry or not; a stop request possible in every callback dispatch")
    chk.extra["apalache"] = info
    t0 = time.time()
    try:
        _apalache(chk, tier, info)
    except _Unavailable as ex:
        # not a violation, not a machinery failure: note what was answered before the tool gave up
        info.update(status="skipped", why=str(ex))
    info["wall_s"] = round(time.time() - t0, 2)
    if info["obligations"]:
        chk.extra["proof_obligations"] = dict(obligations=info["obligations"], discharged=info["discharged"],
                                              smt_vcs=info["vcs"], smt_vcs_discharged=info["vcs_discharged"],
                                              prover="apalache-mc " + str(info.get("version")))
    if info["status"] == "proved":
        chk.assumptions.append("unbounded stop-protocol argument (Apalache): about spec/TrainInd.tla, which "
                               "spec/Train.tla refines on the TLC-checked bounded space; trusted: Apalache, Z3")
    _tlc_cross(chk, tier, info)
    info["wall_total_s"] = round(time.time() - t0, 2)
    return info
