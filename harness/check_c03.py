"""C03 - Training gradients are the exact gradients of the negative log-likelihood.

spec/GradRBM.tla / spec/GradDM.tla: TLC checks (mod three primes) that every closed-form
derivative the code uses (effective-energy gradient, Gamma / Pi gradients) is the derivative of
the corresponding DEFINITION taken term by term, and that the flat parameter layout is a
bijection in nn.Module.parameters() order; spec/Grouping.tla: the per-basis grouping of a batch
yields the sum of per-row gradients whatever the order.  The rotated-basis and NLL gradients
leave TLC as templates over exported tables (spec/Rot.tla expansions, psi / rho atoms, closed
forms) which the harness interprets with exact arithmetic and compares with every public
gradient method of the three state types, slot by slot and by parameter name.
"""
import math
import random
from fractions import Fraction

import mpmath
import numpy as np
import torch

import bigbatch
import common
import gradlib
import lattice
import terms
import tlc
import check_c02

PID = "C03"
qucumber = common.import_qucumber()
from qucumber.utils import cplx  # noqa: E402
from qucumber.utils.gradients_utils import vector_to_grads  # noqa: E402

LETTERS = "XYZ"


def rand_dataset(rng, nv, m):
    rows = [[rng.randint(0, 1) for _ in range(nv)] for _ in range(m)]
    bases = []
    for _ in range(m):
        r = rng.random()
        if r < 0.3:
            bases.append(["Z"] * nv)
        else:
            bases.append([rng.choice(LETTERS) for _ in range(nv)])
    return rows, bases


def idx_of(row):
    k = 0
    for x in row:
        k = 2 * k + int(x)
    return k


class Cmp:
    """entry-wise comparison of a gradient vector with exact values and a condition-aware tolerance"""

    def __init__(self, chk, det):
        self.chk, self.det = chk, det

    def vec(self, key, got, want, tol, layout=None):
        g = [float(x) for x in got.reshape(-1).tolist()]
        self.chk.evaluations += 1
        if len(g) != len(want):
            self.chk.violation(key + ":length", dict(self.det, got=len(g), expected=len(want)))
            return False
        for q, (a, b) in enumerate(zip(g, want)):
            t = tol[q] if isinstance(tol, list) else tol
            if not (abs(mpmath.mpf(a) - b) <= t):
                slot = layout[q] if layout else q
                self.chk.violation(key, dict(self.det, slot=slot, index=q, got=a, expected=mpmath.nstr(b, 17),
                                             tolerance=float(t)))
                return False
        return True


def by_name(chk, key, state, net, vec, want, layout, det, tol):
    """the value lands on the parameter it belongs to: write the vector with vector_to_grads and read
    .grad of every NAMED parameter"""
    rbm = getattr(state, net)
    vector_to_grads(vec.clone(), rbm.parameters())
    named = dict(rbm.named_parameters())
    for q, s in enumerate(layout):
        pname = {"weights": "weights", "weights_W": "weights_W", "weights_U": "weights_U",
                 "visible_bias": "visible_bias", "hidden_bias": "hidden_bias", "aux_bias": "aux_bias"}[s["p"]]
        g = named[pname].grad
        r = s.get("j", s.get("r"))
        val = g[r - 1, s["i"] - 1] if g.dim() == 2 else g[(s["i"] or r) - 1]
        chk.evaluations += 1
        t = tol[q] if isinstance(tol, list) else tol
        if not (abs(mpmath.mpf(val.item()) - want[q]) <= t):
            chk.violation(key + ":by-name", dict(det, parameter=pname, slot=s, got=val.item(), expected=mpmath.nstr(want[q], 17)))
            return False
    for p in rbm.parameters():
        p.grad = None
    return True


# ---------------------------------------------------------------------------------------------
def wave_tables(e):
    B, nv = e["B"], e["nv"]
    p = [terms.fac(B, r["k"], r["ms"]) for r in e["pam"]]
    rr = [terms.fac(B, r["k"], r["ms"]) for r in e["pph"]]
    Lam = [[terms.mpf(gradlib.sigterm(B, t)) for t in row] for row in e["Lam"]]
    Lph = [[terms.mpf(gradlib.sigterm(B, t)) for t in row] for row in e["Lph"]]
    return p, rr, Lam, Lph


# set by check_c06: called with a state that sits exactly on a lattice point, a small data set with bases and the
# oracle's gradients for it, after everything C03 compares (the hook may train the state: it is not used again)
STEP_HOOK = None


def replay_wave(chk, e, n, rng, exp_table):
    B, nv, nh = e["B"], e["nv"], e["nh"]
    pt = dict(nv=nv, nh=nh, B=B, am=e["am"], ph=e["ph"])
    det = dict(point=pt)
    p, rr, Lam, Lph = wave_tables(e)
    if max(terms.mpf(x) for x in p) > mpmath.mpf(10) ** 280:
        return
    npar = len(e["layout"])
    sp = lattice.space(nv)
    base = 1e-9 + nh * 2.1e-9
    Z = sum(p)
    # ---------------- positive wavefunction: everything in the Z basis
    pos = lattice.positive_state(pt)
    c = Cmp(chk, dict(det, state_type="positive"))
    G = pos.rbm_am.effective_energy_gradient(sp, reduce=False)
    for k in range(2 ** nv):
        c.vec("positive:effective_energy_gradient[reduce=False]", G[k], Lam[k], 1e-11, e["layout"])
    k1 = n % (2 ** nv)
    c.vec("positive:effective_energy_gradient[1-D]", pos.rbm_am.effective_energy_gradient(sp[k1]), Lam[k1], 1e-11, e["layout"])
    m = rng.randint(1, 4)
    rows, _ = rand_dataset(rng, nv, m)
    batch = torch.tensor(rows, dtype=torch.double)
    ssum = [sum(Lam[idx_of(r)][q] for r in rows) for q in range(npar)]
    c.vec("positive:effective_energy_gradient[reduce=True]", pos.rbm_am.effective_energy_gradient(batch), ssum, 1e-10, e["layout"])
    c.vec("positive:gradient", pos.gradient(batch)[0], ssum, 1e-10, e["layout"])
    mean = [x / m for x in ssum]
    c.vec("positive:positive_phase_gradients", pos.positive_phase_gradients(batch)[0], mean, 1e-10, e["layout"])
    if n % 6 == 0:            # a batch of thousands of rows (a training set): the sum over its rows
        M = bigbatch.size(n // 6)
        bi = bigbatch.rows(n, 2 ** nv, M)
        cnt = [bi.count(k) for k in range(2 ** nv)]
        bsum = [sum(cnt[k] * Lam[k][q] for k in range(2 ** nv)) for q in range(npar)]
        c.vec("positive:gradient[long-batch]", pos.gradient(sp[bi])[0], bsum, 1e-10 * M, e["layout"])
        c.vec("positive:positive_phase_gradients[long-batch]", pos.positive_phase_gradients(sp[bi])[0],
              [x / M for x in bsum], 1e-10, e["layout"])
    pn = [terms.mpf(x / Z) for x in p]
    env = dict(domain=dict(rows=list(range(m)), v=list(range(2 ** nv))))
    nll = []
    for q in range(npar):
        env.update(rowgrad=lambda en, q=q: Lam[idx_of(rows[en["cur_rows"]])][q],
                   pnorm=lambda en: pn[en["cur_v"]], ellv=lambda en, q=q: Lam[en["cur_v"]][q])
        nll.append(mpmath.re(gradlib.ev(e["tpl"]["nllAm"], env)))
    tolz = base * 4 + 1e-11
    ex = pos.compute_exact_gradients(batch, sp)
    c.vec("positive:compute_exact_gradients", ex[0], nll, tolz, e["layout"])
    by_name(chk, "positive:compute_exact_gradients", pos, "rbm_am", ex[0], nll, e["layout"], dict(det, state_type="positive"), tolz)
    chk.evaluations += 1
    try:
        ex2 = pos.compute_exact_grads(batch, sp)
        c.vec("positive:compute_exact_grads", ex2[0], nll, tolz, e["layout"])
    except Exception as err:
        chk.violation("positive:compute_exact_grads:not-callable", dict(det, error=repr(err)))
    # ---------------- complex wavefunction
    cx = lattice.complex_state(pt)
    c = Cmp(chk, dict(det, state_type="complex"))
    psi = [terms.sqrt(p[k]) * terms.cis(terms.ln(rr[k]) / 2) for k in range(2 ** nv)]
    A = cx.am_grads(sp)
    Ph = cx.ph_grads(sp)
    for k in range(2 ** nv):
        c.vec("complex:am_grads.real", A[0, k], Lam[k], 1e-11, e["layout"])
        c.vec("complex:am_grads.imag", A[1, k], [mpmath.mpf(0)] * npar, 1e-13)
        c.vec("complex:ph_grads.imag", Ph[1, k], Lph[k], 1e-11, e["layout"])       # i * dE_mu
        c.vec("complex:ph_grads.real", Ph[0, k], [mpmath.mpf(0)] * npar, 1e-13)
    m = rng.randint(1, 5)
    rows, bases = rand_dataset(rng, nv, m)
    if n % 3 == 0:
        bases[0] = ["Z"] * nv
    batch = torch.tensor(rows, dtype=torch.double)
    nb = np.array(bases)

    def row_grad(net, row, basis, q):
        ex_ = exp_table[tuple(basis)][idx_of(row)]
        L = Lam if net == "am" else Lph
        env = dict(domain=dict(tau=list(range(len(ex_)))),
                   u=lambda en: ex_[en["cur_tau"]][1], psi=lambda en: psi[ex_[en["cur_tau"]][0]],
                   ell=lambda en: L[ex_[en["cur_tau"]][0]][q])
        return gradlib.ev(e["tpl"]["rowAm" if net == "am" else "rowPh"], env)

    def cond(row, basis):
        ex_ = exp_table[tuple(basis)][idx_of(row)]
        num = sum(abs(u * psi[v]) for v, u in ex_)
        den = abs(sum(u * psi[v] for v, u in ex_))
        return num / den if den != 0 else mpmath.inf

    kappa = [cond(r, b) for r, b in zip(rows, bases)]
    if max(kappa) > 1e5:
        chk.extra["ill_conditioned_skipped"] = chk.extra.get("ill_conditioned_skipped", 0) + 1
        return
    rg = {net: [[row_grad(net, r, b, q) for q in range(npar)] for r, b in zip(rows, bases)] for net in ("am", "ph")}
    tol_row = [float(4 * base * k + 1e-11) for k in kappa]
    # per-row: rotated_gradient (rotated rows) and the 1-D single-sample form of gradient
    for j, (r, b) in enumerate(zip(rows, bases)):
        one = cx.gradient(batch[j], bases=nb[j])
        c.vec("complex:gradient[1-D]:am", one[0], rg["am"][j], tol_row[j], e["layout"])
        if torch.is_tensor(one[1]):
            c.vec("complex:gradient[1-D]:ph", one[1], rg["ph"][j], tol_row[j], e["layout"])
        if any(ch != "Z" for ch in b):
            rgc = cx.rotated_gradient(nb[j], batch[j:j + 1])
            c.vec("complex:rotated_gradient:am", rgc[0], rg["am"][j], tol_row[j], e["layout"])
            c.vec("complex:rotated_gradient:ph", rgc[1], rg["ph"][j], tol_row[j], e["layout"])
    tot = {net: [sum(rg[net][j][q] for j in range(m)) for q in range(npar)] for net in ("am", "ph")}
    ttol = float(sum(tol_row))
    g = cx.gradient(batch, bases=nb)
    c.vec("complex:gradient[batch]:am", g[0], tot["am"], ttol, e["layout"])
    c.vec("complex:gradient[batch]:ph", g[1], tot["ph"], ttol, e["layout"])
    if n % 6 == 0:           # thousands of rows drawn from these (a training batch with many repeats)
        M = bigbatch.size(n // 6)
        bi = bigbatch.rows(n, m, M)
        g = cx.gradient(batch[bi], bases=nb[bi])
        for net, gi in (("am", 0), ("ph", 1)):
            c.vec("complex:gradient[long-batch]:" + net, g[gi],
                  [sum(bi.count(j) * rg[net][j][q] for j in range(m)) for q in range(npar)],
                  float(sum(bi.count(j) * tol_row[j] for j in range(m))), e["layout"])
    # any row permutation gives the same gradient
    perm = list(range(m))
    rng.shuffle(perm)
    g2 = cx.gradient(batch[perm], bases=nb[perm])
    c.vec("complex:gradient[permuted]:am", g2[0], tot["am"], ttol, e["layout"])
    c.vec("complex:gradient[permuted]:ph", g2[1], tot["ph"], ttol, e["layout"])
    pp = cx.positive_phase_gradients(batch, bases_batch=nb)
    c.vec("complex:positive_phase_gradients:am", pp[0], [x / m for x in tot["am"]], ttol, e["layout"])
    c.vec("complex:positive_phase_gradients:ph", pp[1], [x / m for x in tot["ph"]], ttol, e["layout"])
    nll = {"am": [], "ph": []}
    env = dict(domain=dict(rows=list(range(m)), v=list(range(2 ** nv))))
    for q in range(npar):
        env.update(rowgrad=lambda en, q=q: rg["am"][en["cur_rows"]][q], pnorm=lambda en: pn[en["cur_v"]],
                   ellv=lambda en, q=q: Lam[en["cur_v"]][q])
        nll["am"].append(mpmath.re(gradlib.ev(e["tpl"]["nllAm"], env)))
        env.update(rowgrad=lambda en, q=q: rg["ph"][en["cur_rows"]][q])
        nll["ph"].append(mpmath.re(gradlib.ev(e["tpl"]["nllPh"], env)))
    ex = cx.compute_exact_gradients(batch, sp, bases_batch=nb)
    c.vec("complex:compute_exact_gradients:am", ex[0], nll["am"], ttol + tolz, e["layout"])
    c.vec("complex:compute_exact_gradients:ph", ex[1], nll["ph"], ttol + tolz, e["layout"])
    by_name(chk, "complex:compute_exact_gradients:am", cx, "rbm_am", ex[0], nll["am"], e["layout"], dict(det, state_type="complex"), ttol + tolz)
    by_name(chk, "complex:compute_exact_gradients:ph", cx, "rbm_ph", ex[1], nll["ph"], e["layout"], dict(det, state_type="complex"), ttol + tolz)
    chk.nontriv(("wave", str(pt), str(bases)))
    if STEP_HOOK:
        STEP_HOOK("complex", cx, rows, bases, tot, Lam, e["layout"], ttol, pt)


def run_wave(chk, tier, rng, seed, few=False):
    quick = tier == "quick"
    pts = [lattice.random_point(rng, nvmax=3, nhmax=3 if quick else 4, budget=1700) for _ in range(15 if few else 60 if quick else 800)]
    pf = lattice.PointsFile(pts)
    try:
        res = tlc.run("GradRBM", constants={"TMax": 1800, "Lanes": 32},
                      defs={"Archs": "{<<1,1,2>>, <<2,1,3>>, <<2,2,2>>}" if quick else "{<<1,1,2>>, <<2,1,3>>, <<1,2,3>>, <<2,2,2>>, <<2,2,3>>}",
                            "Vals": "{-1, 1, 2}" if quick else "{-2, -1, 1, 2}"},
                      invariants=["WellDefined", "Marginal", "GradIsDerivative", "LayoutBijection", "GradExport"],
                      env={"POINTS_FILE": pf.path}, workers=16, timeout=3400)
    finally:
        pf.close()
    chk.add_tlc(res, "GradRBM.tla GradIsDerivative/LayoutBijection")
    if res.violation == "WellDefined":
        raise common.MachineryError("lattice bound exceeded\n" + res.raw[-2000:])
    if res.violation:
        chk.violation("spec:GradRBM:" + str(res.violation), dict(tlc=res.raw[-4000:]))
        return []
    exps = res.exports
    enum = [e for e in exps if e["idx"] == 0]        # TLC checked all of them; a seeded sample is replayed
    exps = [e for e in exps if e["idx"] > 0] + rng.sample(enum, min(10 if few else 100 if quick else 2500, len(enum)))
    tables = {}
    for n, e in enumerate(exps):
        if e["nv"] not in tables:
            tables[e["nv"]], r = gradlib.expansions(e["nv"])
            chk.add_tlc(r, "Rot.tla expansion table n=%d" % e["nv"])
        replay_wave(chk, e, n, rng, tables[e["nv"]])
    return exps


# ---------------------------------------------------------------------------------------------
def gsum(B, terms_):
    tot = mpmath.mpc(0)
    for t in terms_:
        tot += gradlib.gterm(B, t)
    return tot


def replay_dm(chk, e, n, rng, exp_table):
    pt = e["pt"]
    B, nv, nh, na = pt["B"], pt["nv"], pt["nh"], pt["na"]
    det = dict(point=pt)
    if e["cancel"]:
        chk.extra["cancel_points_skipped"] = chk.extra.get("cancel_points_skipped", 0) + 1
        return
    N = 2 ** nv
    npar = len(e["layout"])
    rho, A, Hm = check_c02.exact_rho(e)
    diag = [rho[i][i].real for i in range(N)]
    if max(diag) > mpmath.mpf(10) ** 280:
        return
    Z = sum(diag)
    base = 1e-9 + (nh + na) * 2.1e-9
    st = lattice.density_state(pt)
    sp = lattice.space(nv)
    c = Cmp(chk, dict(det, state_type="density"))
    gA = [[[gsum(B, e["gAm"][i][j][q]) for q in range(npar)] for j in range(N)] for i in range(N)]
    gP = [[[gsum(B, e["gPh"][i][j][q]) for q in range(npar)] for j in range(N)] for i in range(N)]
    lE = [[mpmath.re(gsum(B, e["lEff"][i][q])) for q in range(npar)] for i in range(N)]
    pi_slots = [q for q, s in enumerate(e["layout"]) if s["p"] in ("weights_U", "aux_bias")]
    # effective-energy gradient (auxiliary units traced out)
    G = st.rbm_am.effective_energy_gradient(sp, reduce=False)
    for k in range(N):
        c.vec("density:effective_energy_gradient[reduce=False]", G[k], lE[k], 1e-10, e["layout"])
    c.vec("density:effective_energy_gradient[reduce=True]", st.rbm_am.effective_energy_gradient(sp),
          [sum(lE[k][q] for k in range(N)) for q in range(npar)], 1e-10, e["layout"])
    # am_grads / ph_grads on the whole space: entry [i, j] is g(v_i, v_j)
    AM, PH = st.am_grads(sp), st.ph_grads(sp)
    gam_p = st.rbm_am.gamma_grad(sp, sp, eta=+1, expand=True)
    gam_m = st.rbm_ph.gamma_grad(sp, sp, eta=-1, expand=True)
    pi_a = st.pi_grad(sp, sp, phase=False, expand=True)
    pi_p = st.pi_grad(sp, sp, phase=True, expand=True)
    zero = mpmath.mpf(0)
    for i in range(N):
        for j in range(N):
            for name, T, want in (("am_grads", AM, gA[i][j]), ("ph_grads", PH, gP[i][j])):
                c.vec("density:%s.real" % name, T[0, i, j], [mpmath.re(x) for x in want], 4e-9, e["layout"])
                c.vec("density:%s.imag" % name, T[1, i, j], [mpmath.im(x) for x in want], 4e-9, e["layout"])
            # the factors, so that a rejection names the faulty one
            wg = [zero if q in pi_slots else mpmath.re(gA[i][j][q]) for q in range(npar)]
            c.vec("density:gamma_grad[+]", gam_p[0, i, j], wg, 1e-10, e["layout"])
            wp = [gA[i][j][q] if q in pi_slots else mpmath.mpc(0) for q in range(npar)]
            c.vec("density:pi_grad[amp].real", pi_a[0, i, j], [mpmath.re(x) for x in wp], 4e-9, e["layout"])
            c.vec("density:pi_grad[amp].imag", pi_a[1, i, j], [mpmath.im(x) for x in wp], 4e-9, e["layout"])
            wg = [zero if q in pi_slots else mpmath.im(gP[i][j][q]) for q in range(npar)]      # i * gamma_grad(-)
            c.vec("density:gamma_grad[-]", gam_m[0, i, j], wg, 1e-10, e["layout"])
            wp = [gP[i][j][q] if q in pi_slots else mpmath.mpc(0) for q in range(npar)]
            c.vec("density:pi_grad[phase].real", pi_p[0, i, j], [mpmath.re(x) for x in wp], 4e-9, e["layout"])
            c.vec("density:pi_grad[phase].imag", pi_p[1, i, j], [mpmath.im(x) for x in wp], 4e-9, e["layout"])
    # paired (expand=False) and single forms of the factor gradients
    i, j = n % N, (n // 2) % N
    one = st.pi_grad(sp[i], sp[j], phase=False, expand=False)
    wp = [gA[i][j][q] if q in pi_slots else mpmath.mpc(0) for q in range(npar)]
    c.vec("density:pi_grad[1-D].real", one[0], [mpmath.re(x) for x in wp], 4e-9, e["layout"])
    # (the published defaults left out every other point: eta = +1, expand = False, phase = False)
    if n % 2:
        one = st.pi_grad(sp[i], sp[j])
        c.vec("density:pi_grad[1-D, defaults].real", one[0], [mpmath.re(x) for x in wp], 4e-9, e["layout"])
    pr = st.rbm_am.gamma_grad(sp[[i, j]], sp[[j, i]]) if n % 2 else st.rbm_am.gamma_grad(sp[[i, j]], sp[[j, i]], eta=+1, expand=False)
    c.vec("density:gamma_grad[expand=False]", pr[0, 0], [zero if q in pi_slots else mpmath.re(gA[i][j][q]) for q in range(npar)], 1e-10, e["layout"])
    # ---- rotated rows and datasets
    m = rng.randint(1, 4)
    rows, bases = rand_dataset(rng, nv, m)
    if n % 3 == 0:
        bases[0] = ["Z"] * nv
    batch = torch.tensor(rows, dtype=torch.double)
    nb = np.array(bases)

    def row_grad(net, row, basis, q):
        k = idx_of(row)
        if all(ch == "Z" for ch in basis):
            env = dict(ellv=lambda en: lE[k][q])
            return gradlib.ev(e["tpl"]["rowZAm" if net == "am" else "rowZPh"], env)
        ex_ = exp_table[tuple(basis)][k]
        g = gA if net == "am" else gP
        pairs = [(a, b) for a in range(len(ex_)) for b in range(len(ex_))]
        env = dict(domain=dict(tt=pairs),
                   uu=lambda en: ex_[en["cur_tt"][0]][1] * mpmath.conj(ex_[en["cur_tt"][1]][1]) / (2 ** sum(ch != "Z" for ch in basis)),
                   rho=lambda en: rho[ex_[en["cur_tt"][0]][0]][ex_[en["cur_tt"][1]][0]],
                   g=lambda en: g[ex_[en["cur_tt"][0]][0]][ex_[en["cur_tt"][1]][0]][q])
        return gradlib.ev(e["tpl"]["row"], env)

    def cond(row, basis):
        if all(ch == "Z" for ch in basis):
            return mpmath.mpf(1)
        ex_ = exp_table[tuple(basis)][idx_of(row)]
        nr = 2 ** sum(ch != "Z" for ch in basis)
        num = sum(abs(u * mpmath.conj(u2) * rho[v][v2]) for v, u in ex_ for v2, u2 in ex_) / nr
        den = abs(sum(u * mpmath.conj(u2) * rho[v][v2] for v, u in ex_ for v2, u2 in ex_)) / nr
        if den < 1e-4:              # the library's 1e-8 regulariser is no longer negligible against rounding
            return mpmath.inf
        return num / den

    kappa = [cond(r, b) for r, b in zip(rows, bases)]
    if max(kappa) > 1e4:
        chk.extra["ill_conditioned_skipped"] = chk.extra.get("ill_conditioned_skipped", 0) + 1
        return
    rg = {net: [[mpmath.re(row_grad(net, r, b, q)) for q in range(npar)] for r, b in zip(rows, bases)] for net in ("am", "ph")}
    tol_row = [float(8 * base * k + 4e-9 * k + 1e-10) for k in kappa]
    for jx, (r, b) in enumerate(zip(rows, bases)):
        one = st.gradient(batch[jx], bases=nb[jx])
        c.vec("density:gradient[1-D]:am", one[0], rg["am"][jx], tol_row[jx], e["layout"])
        if torch.is_tensor(one[1]):
            c.vec("density:gradient[1-D]:ph", one[1], rg["ph"][jx], tol_row[jx], e["layout"])
        if any(ch != "Z" for ch in b):
            rgc = st.rotated_gradient(nb[jx], batch[jx:jx + 1])
            c.vec("density:rotated_gradient:am", rgc[0], rg["am"][jx], tol_row[jx], e["layout"])
            c.vec("density:rotated_gradient:ph", rgc[1], rg["ph"][jx], tol_row[jx], e["layout"])
    tot = {net: [sum(rg[net][jx][q] for jx in range(m)) for q in range(npar)] for net in ("am", "ph")}
    ttol = float(sum(tol_row))
    g = st.gradient(batch, bases=nb)
    c.vec("density:gradient[batch]:am", g[0], tot["am"], ttol, e["layout"])
    c.vec("density:gradient[batch]:ph", g[1], tot["ph"], ttol, e["layout"])
    if n % 6 == 0:           # thousands of rows drawn from these (a training batch with many repeats)
        M = bigbatch.size(n // 6)
        bi = bigbatch.rows(n, m, M)
        g = st.gradient(batch[bi], bases=nb[bi])
        for net, gi in (("am", 0), ("ph", 1)):
            c.vec("density:gradient[long-batch]:" + net, g[gi],
                  [sum(bi.count(jx) * rg[net][jx][q] for jx in range(m)) for q in range(npar)],
                  float(sum(bi.count(jx) * tol_row[jx] for jx in range(m))), e["layout"])
    perm = list(range(m))
    rng.shuffle(perm)
    g2 = st.gradient(batch[perm], bases=nb[perm])
    c.vec("density:gradient[permuted]:am", g2[0], tot["am"], ttol, e["layout"])
    pn = [d / Z for d in diag]
    nll = {"am": [], "ph": []}
    env = dict(domain=dict(rows=list(range(m)), v=list(range(N))))
    for q in range(npar):
        env.update(rowgrad=lambda en, q=q: rg["am"][en["cur_rows"]][q], pnorm=lambda en: pn[en["cur_v"]],
                   ellv=lambda en, q=q: lE[en["cur_v"]][q])
        nll["am"].append(mpmath.re(gradlib.ev(e["tpl"]["nllAm"], env)))
        env.update(rowgrad=lambda en, q=q: rg["ph"][en["cur_rows"]][q])
        nll["ph"].append(mpmath.re(gradlib.ev(e["tpl"]["nllPh"], env)))
    ex = st.compute_exact_gradients(batch, sp, bases_batch=nb)
    c.vec("density:compute_exact_gradients:am", ex[0], nll["am"], ttol + 8 * base, e["layout"])
    c.vec("density:compute_exact_gradients:ph", ex[1], nll["ph"], ttol + 8 * base, e["layout"])
    by_name(chk, "density:compute_exact_gradients:am", st, "rbm_am", ex[0], nll["am"], e["layout"], dict(det, state_type="density"), ttol + 8 * base)
    by_name(chk, "density:compute_exact_gradients:ph", st, "rbm_ph", ex[1], nll["ph"], e["layout"], dict(det, state_type="density"), ttol + 8 * base)
    # the phase network's auxiliary bias receives exactly zero
    dq = [q for q, s in enumerate(e["layout"]) if s["p"] == "aux_bias"]
    chk.evaluations += 1
    if any(ex[1][q].item() != 0.0 for q in dq) or any(g[1][q].item() != 0.0 for q in dq):
        chk.violation("density:phase-aux-bias-gradient-nonzero", dict(det, got=[ex[1][q].item() for q in dq]))
    chk.nontriv(("dm", str(pt), str(bases)))
    if STEP_HOOK:
        STEP_HOOK("density", st, rows, bases, tot, lE, e["layout"], ttol, pt)


def run_dm(chk, tier, rng, seed, few=False):
    quick = tier == "quick"
    pts = [lattice.random_purif_point(rng, nvmax=2 if quick else 3, nhmax=2, namax=2) for _ in range(12 if few else 40 if quick else 500)]
    pf = lattice.PointsFile(pts)
    try:
        res = tlc.run("GradDM", constants={"TMax": 1800, "Lanes": 32},
                      defs={"Archs": "{<<1,1,1,2>>}" if quick else "{<<1,1,1,2>>, <<1,1,1,3>>, <<2,1,1,2>>}",
                            "Vals": "{-1, 1, 2}" if quick else "{-2, -1, 1, 2}"},
                      invariants=["WellDefined", "Marginal", "PartialTrace", "EffGradIsDerivative", "PiGradIsDerivative",
                                  "LayoutBijection", "GradExport"],
                      env={"POINTS_FILE": pf.path}, workers=16, timeout=3400)
    finally:
        pf.close()
    chk.add_tlc(res, "GradDM.tla EffGradIsDerivative/PiGradIsDerivative/LayoutBijection")
    if res.violation == "WellDefined":
        raise common.MachineryError("lattice bound exceeded\n" + res.raw[-2000:])
    if res.violation:
        chk.violation("spec:GradDM:" + str(res.violation), dict(tlc=res.raw[-4000:]))
        return []
    exps = res.exports
    enum = [e for e in exps if e["idx"] == 0]
    exps = [e for e in exps if e["idx"] > 0] + rng.sample(enum, min(10 if few else 60 if quick else 1200, len(enum)))
    tables = {}
    for n, e in enumerate(exps):
        nv = e["pt"]["nv"]
        if nv not in tables:
            tables[nv], r = gradlib.expansions(nv)
        replay_dm(chk, e, n, rng, tables[nv])
    return exps


def run_grouping(chk, tier, rng, seed):
    """spec/Grouping.tla exhaustively, then the enumerated batches against the real gradient()."""
    behs = []
    for ns in (1, 2):
        res = tlc.run("Grouping", constants={"NSites": ns, "MaxRows": 2 if (ns == 2 and tier == "quick") else 3},
                      defs={"Tok(s, b)": "(s + 1) * 1000 + (b + 1) * 37 + s * b"},
                      invariants=["GroupingIsSum", "Partition", "Sorted", "MC_Export"], extends_extra=["Json"],
                      extra_text='MC_Export == pc = "end" => PrintT(ToJson([n |-> NSites, batch |-> batch, uniq |-> uniq]))',
                      workers=8, timeout=900)
        chk.add_tlc(res, "Grouping.tla NSites=%d" % ns)
        if res.violation:
            chk.violation("spec:Grouping:" + str(res.violation), dict(tlc=res.raw[-3000:]))
            return
        behs += res.exports
    pick = rng.sample(behs, min(len(behs), 250 if tier == "quick" else 3000))
    states = {}
    for b in pick:
        ns = b["n"]
        typ = rng.choice(["complex", "density"])
        if (ns, typ) not in states:
            st = lattice.ComplexWaveFunction(ns, 2, gpu=False) if typ == "complex" else lattice.DensityMatrix(ns, 2, 2, gpu=False)
            with torch.no_grad():
                for net in st.networks:
                    for p in getattr(st, net).parameters():
                        p.copy_(torch.randn_like(p))
                if typ == "density":
                    st.rbm_ph.aux_bias.zero_()
            states[(ns, typ)] = st
        st = states[(ns, typ)]
        rows = [[(r["s"] >> (ns - 1 - i)) & 1 for i in range(ns)] for r in b["batch"]]

        def letters(code):
            ds = []
            for _ in range(ns):
                ds.append("ZXY"[code % 3])
                code //= 3
            return ds[::-1]
        bases = [letters(r["b"]) for r in b["batch"]]
        batch = torch.tensor(rows, dtype=torch.double)
        nb = np.array(bases).reshape(len(bases), ns)
        whole = st.gradient(batch, bases=nb)
        per = [st.gradient(batch[i], bases=nb[i]) for i in range(len(rows))]
        chk.evaluations += 1
        for net in (0, 1):
            tot = sum((p[net] if torch.is_tensor(p[net]) else torch.zeros_like(whole[net])) for p in per)
            if not torch.allclose(whole[net], tot, rtol=1e-9, atol=1e-9):
                chk.violation("grouping:batch-is-not-sum-of-rows:%s" % typ,
                              dict(rows=rows, bases=bases, net=net, whole=whole[net].tolist(), sum_of_rows=tot.tolist()))
        # the grouping order of the specification is numpy's
        uq = [letters(c) for c in b["uniq"]]
        if np.unique(nb, axis=0).tolist() != uq:
            chk.violation("grouping:unique-order", dict(bases=bases, spec=uq, numpy=np.unique(nb, axis=0).tolist()))
        if len(set(map(tuple, bases))) > 1:
            chk.nontriv(("grouping", str(rows), str(bases)))


def fd_aux(chk, tier, rng, seed):
    """auxiliary (thorough): central finite differences of training_statistics.NLL at random REAL
    parameters against compute_exact_gradients - ties C03 to C10 numerically."""
    from qucumber.utils import training_statistics as ts
    h = 1e-5
    for trial in range(12 if tier == "quick" else 120):
        typ = rng.choice(["positive", "complex", "density"])
        nv = rng.randint(1, 3)
        if typ == "positive":
            st = lattice.PositiveWaveFunction(nv, 2, gpu=False)
        elif typ == "complex":
            st = lattice.ComplexWaveFunction(nv, 2, gpu=False)
        else:
            st = lattice.DensityMatrix(nv, 2, 2, gpu=False)
        with torch.no_grad():
            for net in st.networks:
                for p in getattr(st, net).parameters():
                    p.copy_(torch.randn_like(p) * 0.7)
            if typ == "density":
                st.rbm_ph.aux_bias.zero_()
        rows, bases = rand_dataset(rng, nv, rng.randint(2, 5))
        batch = torch.tensor(rows, dtype=torch.double)
        nb = np.array(bases)
        sp = lattice.space(nv)
        kw = {} if typ == "positive" else dict(sample_bases=nb)
        if typ == "positive":
            g = st.compute_exact_gradients(batch, sp)
        else:
            g = st.compute_exact_gradients(batch, sp, bases_batch=nb)
        for ni, net in enumerate(st.networks):
            vec = g[ni]
            off = 0
            for name, p in getattr(st, net).named_parameters():
                flat = p.data.view(-1)
                for t in range(flat.numel()):
                    if typ == "density" and net == "rbm_ph" and name == "aux_bias":
                        continue
                    old = flat[t].item()
                    flat[t] = old + h
                    up = float(ts.NLL(st, batch, space=sp, **kw))
                    flat[t] = old - h
                    dn = float(ts.NLL(st, batch, space=sp, **kw))
                    flat[t] = old
                    fd = (up - dn) / (2 * h)
                    chk.evaluations += 1
                    if abs(fd - vec[off + t].item()) > 2e-6 * (1 + abs(fd)):
                        chk.violation("fd:%s:%s.%s" % (typ, net, name),
                                      dict(nv=nv, rows=rows, bases=bases, index=t, finite_difference=fd,
                                           library=vec[off + t].item(), seed=seed, trial=trial))
                off += flat.numel()


def run(tier, seed):
    chk = common.Check(PID, tier, seed)
    lattice.REUSE = True          # parameter settings reached on live objects, by every route (see lattice.py)
    rng = random.Random(seed)
    torch.manual_seed(seed)
    chk.rule = ("lattice points (all parameters non-zero) x random datasets with any basis strings over {X,Y,Z} "
                "(all-Z and rotated rows mixed in one batch); derivative identities checked by TLC; every public gradient "
                "method compared slot by slot and by parameter name with the interpreted templates; grouping machine "
                "exhaustive for <= 3 rows x all basis strings (n <= 2); non-trivial = point with a rotated row.  Traces: "
                "the real vector_to_grads / parameters_to_vector on bare RBMs and on the networks of the three state types "
                "(identity vector in, per-parameter arrays out; parameters set by name, flat vector out) validated by "
                "TraceLayout.tla")
    exps = run_wave(chk, tier, rng, seed)
    dm = run_dm(chk, tier, rng, seed)
    run_grouping(chk, tier, rng, seed)
    # code -> spec: where the real vector_to_grads puts a flat vector, and the flat read-back of parameters set by name
    import layout_trace
    layout_trace.phase(chk, tier, random.Random(seed + 77))
    # code -> spec: the positive phase of a batch is the mean of the rows' own gradients, however it is grouped
    import groupmean_trace
    groupmean_trace.phase(chk, tier, random.Random(seed + 78), {"grad"})
    fd_aux(chk, tier, rng, seed)
    # negative controls: corrupted tables / templates must be flagged by the same comparators
    import copy
    if exps and not chk.violations:
        tab, _ = gradlib.expansions(2)
        e = next(x for x in exps if x["nv"] == 2 and x["nh"] >= 1)
        ctl = common.Check(PID, tier, seed)
        bad = copy.deepcopy(e)
        nvb = bad["nv"] * bad["nh"]
        for row in bad["Lam"]:
            row[nvb], row[nvb + bad["nv"]] = row[nvb + bad["nv"]], row[nvb]        # visible-bias and hidden-bias slots exchanged
        replay_wave(ctl, bad, 0, random.Random(1), tab)
        chk.control(len(ctl.violations) > 0, "exchanged bias slots in the expected gradient compared equal")
        ctl = common.Check(PID, tier, seed)
        bad = copy.deepcopy(e)
        bad["tpl"]["rowPh"]["x"]["a"]["x"]["xs"] = [t for t in bad["tpl"]["rowPh"]["x"]["a"]["x"]["xs"] if t["op"] != "i"]
        for s_ in range(40):
            replay_wave(ctl, bad, 0, random.Random(s_), tab)
        chk.control(any(k.startswith("complex:") for k, _ in ctl.violations), "phase-gradient template without the factor i compared equal")
    if dm and not chk.violations:
        e = next((x for x in dm if not x["cancel"] and x["pt"]["nv"] >= 1), None)
        if e is not None:
            tabn, _ = gradlib.expansions(e["pt"]["nv"])
            ctl = common.Check(PID, tier, seed)
            bad = copy.deepcopy(e)
            for row in bad["gAm"]:
                for cell in row:
                    for slot, s_ in zip(cell, bad["layout"]):
                        if s_["p"] == "weights_U":
                            for t in slot:
                                t["cd"] = 1                 # factor 1/2 of dPi/dU lost
            replay_dm(ctl, bad, 0, random.Random(2), tabn)
            chk.control(len(ctl.violations) > 0, "dPi/dU without its factor 1/2 compared equal")
    if dm:
        chk.sample(dict(dm_point=dm[0]["pt"], g_am_00=dm[0]["gAm"][0][0][:3], row_template=dm[0]["tpl"]["row"]))
    if exps:
        chk.sample(dict(point=dict(nv=exps[0]["nv"], nh=exps[0]["nh"], B=exps[0]["B"], am=exps[0]["am"]),
                        dE_terms_state0=exps[0]["Lam"][0][:4], row_template=exps[0]["tpl"]["rowAm"]))
    chk.assumptions += ["lattice parameters; rows whose rotated amplitude is ill-conditioned (kappa > 1e5) are skipped",
                        "'is the derivative' for rotated bases rests on the chain rule stated in GradRBM.tla/GradDM.tla plus "
                        "the auxiliary finite-difference check of the thorough tier"]
    return chk.finish()
