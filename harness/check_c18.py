"""C18 - Early stopping halts exactly when its documented convergence rule is met.

spec/Train.tla carries the EarlyStopping callback with the documented rule
(|M_{t-p} - M_t| relative / absolute / scaled by sigma_{t-p}, compared with the
tolerance, only once p earlier evaluations exist).  TLC enumerates value
sequences, patience, evaluator and stopper periods, list order (evaluator before
or after the stopper), tolerances 0..infinity and the three criteria, checking
FirstHit against the rule stated directly on the value sequence.  Every terminal
behaviour is replayed into the real fit() with scripted evaluators.
"""
import random
import warnings

import common
import traincheck as tc
import trainrun

PID = "C18"


def cfg_space(tier):
    if tier == "quick":
        vals, L, pats, pers, tols = "{-1, 0, 2}", 4, "1..2", "{<<1,1>>, <<1,2>>, <<2,1>>}", "{<<0,1>>, <<1,2>>, <<3,2>>, <<1,0>>}"
    else:
        vals, L, pats, pers, tols = "{-2, 0, 1, 4}", 5, "1..3", "{<<1,1>>, <<1,2>>, <<2,1>>, <<3,1>>}", "{<<0,1>>, <<1,2>>, <<3,1>>, <<1,0>>}"
    base = '''[type |-> "positive", startEp |-> 1, epochs |-> %d, N |-> 1, posB |-> 1, negB |-> 0,
       data |-> <<1>>, bases |-> <<>>, sched |-> FALSE, entryStop |-> FALSE, again |-> "no", perms |-> "id",
       cbs |-> CBS, vals |-> <<0>> \\o v, vars |-> <<0>> \\o VARS]''' % L
    ev_first = '<<[t |-> "rec"], [t |-> "eval", period |-> pp[1], kind |-> KIND], [t |-> "early", period |-> pp[2], patience |-> pa, tolN |-> tl[1], tolD |-> tl[2], crit |-> cr, ev |-> 2], [t |-> "rec"]>>'
    st_first = '<<[t |-> "rec"], [t |-> "early", period |-> pp[2], patience |-> pa, tolN |-> tl[1], tolD |-> tl[2], crit |-> cr, ev |-> 3], [t |-> "eval", period |-> pp[1], kind |-> KIND], [t |-> "rec"]>>'
    quant = "v \\in [1..%d -> %s], pa \\in %s, pp \\in %s, tl \\in %s" % (L, vals, pats, pers, tols)
    sets = []
    # plain metrics: relative / absolute, evaluator before and after the stopper
    for cbs in (ev_first, st_first):
        sets.append("{ %s : %s, cr \\in {\"relative\", \"absolute\"} }" % (
            base.replace("CBS", cbs.replace("KIND", '"metric"')).replace("VARS", "[i \\in 1..%d |-> 0]" % L), quant))
    # observable statistics: variance criterion, variances follow the values (0 -> zero variance)
    sets.append("{ %s : %s, cr \\in {\"variance\", \"relative\"} }" % (
        base.replace("CBS", ev_first.replace("KIND", '"obs"')).replace("VARS", "[i \\in 1..%d |-> (v[i] * v[i]) %% 5]" % L), quant))
    return sets


def cfg_space_two(tier):
    """A second fit() with the same evaluator and stopper objects: the evaluator's history is kept ("keep") or
    cleared ("clear") in between; "p evaluations earlier" counts the evaluations it still holds."""
    L = 3
    vals, pats, tols = ("{-1, 0, 2}", "1..2", "{<<1,2>>, <<3,2>>}") if tier == "quick" else \
        ("{-2, 0, 1, 4}", "1..3", "{<<0,1>>, <<1,2>>, <<3,1>>}")
    out = []
    for cbs in ('<<[t |-> "rec"], [t |-> "eval", period |-> 1, kind |-> "metric"], [t |-> "early", period |-> 1, patience |-> pa, tolN |-> tl[1], tolD |-> tl[2], crit |-> cr, ev |-> 2]>>',
                '<<[t |-> "rec"], [t |-> "early", period |-> 1, patience |-> pa, tolN |-> tl[1], tolD |-> tl[2], crit |-> cr, ev |-> 3], [t |-> "eval", period |-> 1, kind |-> "metric"]>>'):
        out.append('''{ [type |-> "positive", startEp |-> 1, epochs |-> ne, N |-> 1, posB |-> 1, negB |-> 0,
       data |-> <<1>>, bases |-> <<>>, sched |-> FALSE, entryStop |-> FALSE, again |-> ag, perms |-> "id",
       cbs |-> %s, vals |-> <<0>> \\o v, vars |-> <<0, 0, 0, 0>>] :
       v \\in [1..%d -> %s], pa \\in %s, tl \\in %s, cr \\in {"relative", "absolute"}, ne \\in 2..%d, ag \\in {"keep", "clear"} }'''
                   % (cbs, L, vals, pats, tols, L))
    return out


def cfg_space_pair(tier):
    """Two stoppers watching one evaluator in the same list (different patience / tolerance / criterion): a stop
    requested by one of them stands, whatever the other concludes at the same epoch."""
    L = 4
    vals = "{-1, 0, 2}" if tier == "quick" else "{-2, 0, 1, 4}"
    tols = "{<<1,2>>, <<3,2>>}"
    cbs = ('<<[t |-> "rec"], [t |-> "eval", period |-> 1, kind |-> "metric"], '
           '[t |-> "early", period |-> 1, patience |-> pa, tolN |-> tl[1], tolD |-> tl[2], crit |-> cr, ev |-> 2], '
           '[t |-> "early", period |-> 1, patience |-> pb, tolN |-> tm[1], tolD |-> tm[2], crit |-> cr2, ev |-> 2], [t |-> "rec"]>>')
    return ['''{ [type |-> "positive", startEp |-> 1, epochs |-> %d, N |-> 1, posB |-> 1, negB |-> 0,
       data |-> <<1>>, bases |-> <<>>, sched |-> FALSE, entryStop |-> FALSE, again |-> "no", perms |-> "id",
       cbs |-> %s, vals |-> <<0>> \\o v, vars |-> <<0, 0, 0, 0, 0>>] :
       v \\in [1..%d -> %s], pa \\in 1..2, pb \\in 1..2, tl \\in %s, tm \\in %s,
       cr \\in {"relative", "absolute"}, cr2 \\in {"relative", "absolute"} }''' % (L, cbs, L, vals, tols, tols)]


def replay_two(chk, beh, seed, n):
    """first run, what the user does in between, second run on the same objects"""
    cfg, carry = beh["cfg"], beh["carry"]
    cfg1 = dict(cfg, again=carry["again"], entryStop=False)
    for c in (cfg, cfg1):
        for d in c["cbs"]:
            if d["t"] == "eval":
                d["vkind"] = ("float", "np", "tensor0d", "ndarray0d")[n % 4]
    real1 = trainrun.real_run(cfg1, plan=trainrun.plan_from_hist(carry["hist"]),
                              force=trainrun.draws_from_hist(carry["hist"]), seed=seed + n, k=0)
    ok = tc.compare_run(chk, dict(cfg=cfg1, hist=carry["hist"],
                                  fin=dict(stop=carry["stop"], pver=carry["pver"], sched=0, cbs=carry["cbs"])),
                        real1, "replay:first-run")
    if not ok:
        return
    for o, d in zip(real1["objs"], cfg["cbs"]):
        if d["t"] == "eval" and carry["again"] == "clear":
            o.clear_history()
        if d["t"] == "early":
            o.last_epoch = None
    real1["nn_state"].stop_training = False
    real = trainrun.real_run(cfg, plan=trainrun.plan_from_hist(beh["hist"]),
                             force=trainrun.draws_from_hist(beh["hist"]), seed=seed + n, k=0, prev=real1)
    if tc.compare_run(chk, beh, real, "replay:second-run:" + carry["again"]):
        post(chk, beh, real, n)


def post(chk, beh, real, n):
    cfg = beh["cfg"]
    for i, d in enumerate(cfg["cbs"]):
        if d["t"] == "early":
            o = real["objs"][i]
            fired = beh["fin"]["cbs"][i]
            if (o.last_epoch is not None) != bool(fired):
                chk.violation("replay:last_epoch", dict(cfg=cfg, expected=fired, got=o.last_epoch))
    ees = [e["ep"] for e in real["hist"] if e["k"] == "EE" and e["cb"] == 1]
    sees = [e["ep"] for e in beh["hist"] if e["k"] == "EE" and e["cb"] == 1]
    if ees != sees:
        chk.violation("replay:stop-epoch", dict(cfg=cfg, expected_last=sees[-1:], got_last=ees[-1:]))


def construction_table(chk):
    """Construction contracts stated in the property: variance criterion refused for plain
    metrics, unknown criterion refused, the deprecated class is the variance criterion."""
    from qucumber.callbacks import MetricEvaluator, ObservableEvaluator, EarlyStopping, VarianceBasedEarlyStopping
    me, oe = MetricEvaluator(1, {}), ObservableEvaluator(1, [])
    for crit in ("variance", " Variance ", "VARIANCE"):
        try:
            EarlyStopping(1, 1, 1, me, "", criterion=crit)
            chk.violation("construct:variance-accepted-for-metric", dict(criterion=crit))
        except TypeError:
            pass
    for crit in ("bogus", ""):
        try:
            EarlyStopping(1, 1, 1, oe, "", criterion=crit)
            chk.violation("construct:unknown-criterion-accepted", dict(criterion=crit))
        except ValueError:
            pass
    try:
        EarlyStopping(1, 1, 1, object(), "")
        chk.violation("construct:non-evaluator-accepted", {})
    except TypeError:
        pass
    with warnings.catch_warnings():
        warnings.simplefilter("ignore")
        v = VarianceBasedEarlyStopping(1, 1, 1, oe, "q")
    if v.criterion != "variance":
        chk.violation("construct:deprecated-class-not-variance", dict(criterion=v.criterion))
    chk.evaluations += 7


def run(tier, seed):
    chk = common.Check(PID, tier, seed)
    rng = random.Random(seed)
    chk.rule = ("TLC: every value sequence over a small alphabet (zeros included) x patience x evaluator/stopper "
                "periods x list order x tolerance (0 .. infinity) x criterion; non-trivial = behaviours in which the "
                "stopper fires before the last epoch or the rule is evaluated at least once; replayed into the real "
                "fit() with scripted MetricEvaluator / ObservableEvaluator values (python float and numpy.float64)")
    # (thorough tier: TLC checks every behaviour, a uniform sample is decoded for the replay - see check_c17)
    smp = (lambda n, *f: None) if tier == "quick" else (lambda n, *f: (n, seed) + f)
    res = tc.mc(cfg_space(tier), maxinj=0, invariants=["TypeOK", "FirstHit", "Complete", "OnSchedule"], timeout=3400,
                export_sample=smp(40000))
    chk.add_tlc(res, "Train.tla early stopping")
    if res.violation:
        chk.violation("spec:" + str(res.violation), dict(tlc=res.raw[-4000:]))
        return chk.finish()
    behs = res.exports
    nrep = 1500 if tier == "quick" else 40000
    if len(behs) > nrep:
        behs = rng.sample(behs, nrep)

    def opts(n, beh):
        cfg = beh["cfg"]
        for d in cfg["cbs"]:
            if d["t"] == "eval":
                d["np"] = (n % 2 == 1)
                d["vkind"] = ("float", "np", "tensor0d", "ndarray0d")[n % 4]      # what the user's metric returns
            if d["t"] == "early" and d["crit"] == "variance":
                d["deprecated"] = (n % 3 == 0)
        # the rule does not depend on the unit of the monitored quantity: a third of the replays use values of
        # magnitude 1e-9 / 1e-13 / 1e12 or the negated sequence (powers of two: no rounding)
        cfg["scale"] = (1.0, 2.0 ** -30, 1.0, -2.0 ** -43, 1.0, 2.0 ** 40, 1.0, -1.0, 1.0)[n % 9]
        return dict(time_flag=False, k=0)

    def nontriv(beh):
        return any(c for d, c in zip(beh["cfg"]["cbs"], beh["fin"]["cbs"]) if d["t"] == "early") \
            or len([e for e in beh["hist"] if e["k"] == "EV"]) > 2

    with warnings.catch_warnings():
        warnings.simplefilter("ignore")       # numpy inf/nan warnings for zero references are expected
        tc.replay_behaviours(chk, behs, seed, nontrivial=nontriv, post=post, opts=opts)
    # -- two runs on the same evaluator / stopper objects
    res2 = tc.mc(cfg_space_two(tier), maxinj=0, invariants=["TypeOK", "FirstHit", "Complete", "OnSchedule"], timeout=3400,
                 export_sample=smp(16000))
    chk.add_tlc(res2, "Train.tla early stopping, second fit() on the same evaluator and stopper")
    if res2.violation:
        chk.violation("spec:" + str(res2.violation), dict(tlc=res2.raw[-4000:]))
        return chk.finish()
    two = [b for b in res2.exports if b["carry"]]
    two = rng.sample(two, min(len(two), 300 if tier == "quick" else 8000))
    with warnings.catch_warnings():
        warnings.simplefilter("ignore")
        for n, beh in enumerate(two):
            replay_two(chk, beh, seed, n)
            chk.evaluations += 1
            if nontriv(beh):
                chk.nontriv(("two-runs", n))
    chk.extra["two_run_behaviours_replayed"] = len(two)
    # -- two stoppers in one list
    res3 = tc.mc(cfg_space_pair(tier), maxinj=0, invariants=["TypeOK", "FirstHit", "Complete", "OnSchedule"], timeout=3400,
                 export_sample=smp(6000))
    chk.add_tlc(res3, "Train.tla early stopping, two stoppers on one evaluator")
    if res3.violation:
        chk.violation("spec:" + str(res3.violation), dict(tlc=res3.raw[-4000:]))
        return chk.finish()
    pair = rng.sample(res3.exports, min(len(res3.exports), 300 if tier == "quick" else 6000))
    with warnings.catch_warnings():
        warnings.simplefilter("ignore")
        tc.replay_behaviours(chk, pair, seed, key="replay:two-stoppers", nontrivial=nontriv, post=post, opts=opts)
    chk.extra["two_stopper_behaviours_replayed"] = len(pair)
    construction_table(chk)
    # -- code -> spec: longer randomised runs (patience up to 5, values 0..9, any tolerance)
    runs = []
    for i in range(80 if tier == "quick" else 800):
        L = rng.randint(3, 12)
        crit = rng.choice(["relative", "absolute", "variance"])
        kind = "obs" if crit == "variance" or rng.random() < 0.3 else "metric"
        vals = [0] + [rng.choice([-9, -3, -1, 0, 1, 2, 3, 5, 9]) if rng.random() < 0.7 else 4 for _ in range(L)]
        if rng.random() < 0.3:
            c0 = rng.choice([3, -3])
            vals = [0] + [rng.choice([c0, c0, c0, c0 + 1]) for _ in range(L)]          # nearly constant, either sign
        ev = {"t": "eval", "period": rng.randint(1, 3), "kind": kind, "np": rng.random() < 0.5,
              "vkind": rng.choice(["float", "np", "tensor0d", "ndarray0d"])}
        tolN, tolD = rng.choice([(0, 1), (1, 4), (1, 2), (1, 1), (2, 1), (7, 2), (1, 0)])
        st = {"t": "early", "period": rng.randint(1, 3), "patience": rng.randint(1, 5), "tolN": tolN, "tolD": tolD,
              "crit": crit, "ev": 2}
        cbs = [{"t": "rec"}, ev, st, {"t": "rec"}]
        if crit != "variance" and rng.random() < 0.4:
            st["ev"] = 3
            cbs = [{"t": "rec"}, st, ev, {"t": "rec"}]
        cfg = dict(type="positive", startEp=rng.randint(0, 2), epochs=L, N=2, posB=rng.randint(1, 2), negB=0,
                   data=[1, 2], bases=[], sched=False, entryStop=False, again="no", perms="all", cbs=cbs, vals=vals,
                   vars=[(v * v) % 7 for v in vals])
        if rng.random() < 0.4:
            cfg["scale"] = rng.choice([2.0 ** -30, -2.0 ** -43, 2.0 ** 40, -1.0, 2.0 ** -60])
        with warnings.catch_warnings():
            warnings.simplefilter("ignore")
            real = trainrun.real_run(cfg, seed=rng.randrange(10 ** 6), k=0)
        runs.append((cfg, real, {}))

    import copy

    def late_stop(lines):
        ln = copy.deepcopy(next(x for x in lines if any(c for d, c in zip(x["cfg"]["cbs"], x["fin"]["cbs"])
                                                         if d["t"] == "early" and c)))
        i = next(i for i, d in enumerate(ln["cfg"]["cbs"]) if d["t"] == "early")
        ln["fin"]["cbs"][i] = [ln["fin"]["cbs"][i][0] + 1]
        return ("trace whose stopper reports a later epoch accepted", ln)

    def self_compare(lines):
        # a run that stopped at the very first evaluation (what patience-1 lookback did)
        cfg = dict(type="positive", startEp=1, epochs=4, N=1, posB=1, negB=0, data=[1], bases=[], sched=False,
                   entryStop=False, again="no", perms="all", vals=[0, 3, 1, 4, 1], vars=[0, 0, 0, 0, 0],
                   cbs=[{"t": "rec"}, {"t": "eval", "period": 1, "kind": "metric"},
                        {"t": "early", "period": 1, "patience": 1, "tolN": 1, "tolD": 2, "crit": "absolute", "ev": 2}])
        real = trainrun.real_run(dict(cfg, epochs=1), seed=1, k=0)
        ln = tc.to_trace(cfg, real)
        ln["fin"]["stop"] = True
        ln["fin"]["cbs"][2] = [1]
        ln["ev"][-1]["stop"] = True
        return ("trace that stops at the first evaluation (self-comparison) accepted", ln)

    tc.trace_phase(chk, runs, [late_stop, self_compare])
    # comparator control: an expected stop one epoch too early must be flagged
    ctl = common.Check(PID, tier, seed)
    beh = next(b for b in behs if any(c for d, c in zip(b["cfg"]["cbs"], b["fin"]["cbs"]) if d["t"] == "early")
               and sum(1 for e in b["hist"] if e["k"] == "EE") > 2)
    real = trainrun.real_run(beh["cfg"], force=trainrun.draws_from_hist(beh["hist"]), seed=seed, k=0)
    cut = max(i for i, e in enumerate(beh["hist"]) if e["k"] == "SH")
    tc.compare_run(ctl, dict(beh, hist=beh["hist"][:cut] + beh["hist"][-2:]), real, "control")
    chk.control(len(ctl.violations) > 0, "behaviour stopped one epoch early compared equal")
    chk.assumptions += ["the monitored values are scripted (MetricEvaluator metric function / ObservableEvaluator "
                        "statistics replaced on the instance); integer-valued",
                        "a zero reference value (relative) or zero variance makes the deviation infinite/undefined: never below tolerance"]
    return chk.finish()
