"""Library side of the C10 binding: exact states from lattice exports, real model objects set to the same
points, target tensors, guarded calls of fidelity / KL / NLL with the return-type table."""
import warnings

import mpmath
import numpy as np
import torch

import common
import lattice
import terms
import metrics_eval as me

qucumber = common.import_qucumber()
from qucumber.utils import training_statistics as ts  # noqa: E402
from qucumber.utils import unitaries as qu  # noqa: E402
from check_c02 import exact_rho, cancels  # noqa: E402

SOFTPLUS = 2.1e-9          # torch's softplus drops log1p(exp(-x)) <= 2.07e-9 for x > 20, per hidden / auxiliary unit


# ---- exact states + the real objects ----------------------------------------------------------------
def wave_states(e):
    """RBM.tla export -> [(type name, real object, Exact)] for the positive and the complex wavefunction"""
    nv, nh, B = e["nv"], e["nh"], e["B"]
    pt = dict(nv=nv, nh=nh, B=B, am=e["am"], ph=e["ph"])
    p = [terms.fac(B, r["k"], r["ms"]) for r in e["pam"]]
    rr = [terms.fac(B, r["k"], r["ms"]) for r in e["pph"]]
    Z = sum(p)
    if max(p) > 10 ** 290 or Z <= 0:
        return []
    amp = [terms.sqrt(x) for x in p]
    eps = 1e-9 + nh * SOFTPLUS
    pos = me.Exact("pure", nv, v=[mpmath.mpc(a) for a in amp], norm=Z, eps=eps, label="positive")
    cx = me.Exact("pure", nv, v=[a * terms.cis(terms.ln(r) / 2) for a, r in zip(amp, rr)], norm=Z, eps=eps, label="complex")
    return [("positive", lattice.positive_state(pt), pos, pt), ("complex", lattice.complex_state(pt), cx, pt)]


def density_states(e):
    pt = e["pt"]
    rho, A, Hm = exact_rho(e)
    N = 2 ** pt["nv"]
    diag = [rho[i][i].real for i in range(N)]
    if max(abs(x) for x in diag) > mpmath.mpf(10) ** 290:
        return []
    eps = 1e-9 + (pt["nh"] + pt["na"]) * SOFTPLUS
    if any(cancels(g) for row in e["G"] for g in row):
        eps = 1.5e-7          # |1 + e^z| near an exact zero is evaluated with sqrt(machine eps) noise (see C02)
    ex = me.Exact("mixed", pt["nv"], m=rho, norm=sum(diag), eps=eps, label="density")
    return [("density", lattice.density_state(pt), ex, pt)]


# ---- targets ------------------------------------------------------------------------------------------
def cten(re, im):
    return torch.tensor([re, im], dtype=torch.double)


class Target:
    """exact target (Exact, unnormalised) + what is handed to the library: the normalised state as a tensor"""

    def __init__(self, exact, what):
        self.ex, self.what = exact, what
        if exact.kind == "pure":
            self.tensor = cten(*me.as_float_vec(exact.v, mpmath.sqrt(exact.norm)))
        else:
            self.tensor = cten(*me.as_float_mat(exact.m, exact.norm))

    def rotated(self, U):
        """the target pre-rotated with the SPEC's dense unitary (dict form)"""
        if self.ex.kind == "pure":
            return cten(*me.as_float_vec(U.apply_vec(self.ex.v), mpmath.sqrt(self.ex.norm)))
        return cten(*me.as_float_mat(U.apply_mat(self.ex.m), self.ex.norm))

    def transposed(self):
        m = self.ex.m
        return me.Exact("mixed", self.ex.n, m=[[m[j][i] for j in range(len(m))] for i in range(len(m))], norm=self.ex.norm, eps=0)


def own_target(ex):
    return Target(me.Exact(ex.kind, ex.n, v=ex.v, m=ex.m, norm=ex.norm, eps=0), "own-state")


def bits(n, s):
    return [(s >> (n - 1 - j)) & 1 for j in range(n)]


def sample_tensor(n, rows):
    return torch.tensor([bits(n, r["s"]) for r in rows], dtype=torch.double)


def bases_array(rows):
    return np.array([list(r["b"]) for r in rows])


# ---- guarded calls ------------------------------------------------------------------------------------
class Outcome:
    def __init__(self, value=None, exc=None, warns=()):
        self.value, self.exc, self.warns = value, exc, list(warns)

    @property
    def typename(self):
        if self.exc is not None:
            return "raises " + type(self.exc).__name__
        t = type(self.value)
        return t.__module__.split(".")[0] + "." + t.__name__ if t.__module__ != "builtins" else t.__name__

    @property
    def is_plain_real(self):
        """a plain real number of type float (numpy.float64 is a float subclass); never a tensor"""
        return self.exc is None and isinstance(self.value, float) and not isinstance(self.value, torch.Tensor)

    def number(self):
        v = self.value
        if isinstance(v, torch.Tensor):
            return float(v.detach().reshape(-1)[0].item()) if v.numel() == 1 else float("nan")
        try:
            return float(v)
        except Exception:
            return float("nan")


MUTATIONS = []          # (function name, argument) pairs: a metric wrote into one of its arguments


def _snap(x):
    if isinstance(x, torch.Tensor):
        return x.detach().clone()
    if isinstance(x, dict):
        return {kk: _snap(v) for kk, v in x.items()}
    import numpy as _np
    if isinstance(x, _np.ndarray):
        return x.copy()
    return None


def _same(x, s):
    if s is None:
        return True
    if isinstance(x, torch.Tensor):
        return x.shape == s.shape and torch.equal(x, s)
    if isinstance(x, dict):
        return set(x) == set(s) and all(_same(x[kk], s[kk]) for kk in x)
    return bool((x == s).all()) if x.shape == s.shape else False


def call(fn, *a, **k):
    """guarded call; also notes when the metric modified a tensor / array / dict argument in place
    (targets, samples, spaces and bases belong to the caller and are reused across metric calls)"""
    snaps = [(("arg%d" % i), x, _snap(x)) for i, x in enumerate(a[1:], start=1)] + [(n, x, _snap(x)) for n, x in k.items()]
    try:
        with warnings.catch_warnings(record=True) as w:
            warnings.simplefilter("always")
            try:
                v = fn(*a, **k)
            except Exception as ex:        # noqa: BLE001  (the outcome is judged by the caller)
                return Outcome(exc=ex, warns=[str(x.message) for x in w])
        return Outcome(value=v, warns=[str(x.message) for x in w])
    finally:
        for name, x, s in snaps:
            if not _same(x, s):
                MUTATIONS.append((getattr(fn, "__name__", str(fn)), name))
                # restore, so that later comparisons judge the metric's value and not the damage
                if isinstance(x, torch.Tensor):
                    x.copy_(s)


def ensure_unitaries(state):
    """PositiveWaveFunction carries no unitary_dict; give it the default one (what a user has to do)"""
    try:
        state.unitary_dict
        return False
    except AttributeError:
        state.unitary_dict = qu.create_dict()
        return True


# ---- auxiliary oracle: dense Uhlmann fidelity -----------------------------------------------------------
def uhlmann_dense(model, target):
    """(tr sqrt(sqrt(tau) rho sqrt(tau)))^2 with numpy eigh, on the normalised exact matrices (AUXILIARY)"""
    N = model.N
    rho = np.array([[complex(model.m[i][j] / model.norm) for j in range(N)] for i in range(N)])
    tau = np.array([[complex(target.m[i][j] / target.norm) for j in range(N)] for i in range(N)])
    w, V = np.linalg.eigh((tau + tau.conj().T) / 2)
    st = (V * np.sqrt(np.clip(w, 0, None))) @ V.conj().T
    inner = st @ rho @ st
    ev = np.linalg.eigvalsh((inner + inner.conj().T) / 2)
    return float(np.sum(np.sqrt(np.clip(ev, 0, None))) ** 2)
