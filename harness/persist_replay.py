"""Spec -> code binding of C11: execute behaviours exported from spec/Persist.tla on real
QuCumber states, real metadata dicts and real files, and compare the projection of the real
world with the specification's state after every call.

Projection (the only place where abstract tokens meet numbers):
  pver   SHA-1 over (network, parameter name, dtype, shape, bytes) of every parameter
  udict  SHA-1 over (name, dtype, shape, bytes) of every unitary
  ver    SHA-1 over a canonical form of a metadata dict (nested dict/list, scalars, tensors)
Two locations (model slots, files, metadata objects) must hold equal hashes iff the specification
gives them equal tokens; a token that stays alive keeps its hash; a fresh token has a hash never
seen before in the behaviour.
"""
import collections.abc
import contextlib
import copy
import hashlib
import io
import os
import warnings

import numpy as np
import torch

import common

qucumber = common.import_qucumber()
from qucumber.nn_states import PositiveWaveFunction, ComplexWaveFunction, DensityMatrix  # noqa: E402
from qucumber.callbacks import ModelSaver  # noqa: E402
from qucumber.utils import unitaries  # noqa: E402

CLASSES = {"positive": PositiveWaveFunction, "complex": ComplexWaveFunction, "density": DensityMatrix}
NETS = {"positive": ["rbm_am"], "complex": ["rbm_am", "rbm_ph"], "density": ["rbm_am", "rbm_ph"]}
HAS_U = {"positive": False, "complex": True, "density": True}
PLAIN_KEYS = {"epoch", "note", "lr", "nested", "tensor"}
KNOWN = "save:mutates-caller-metadata"


# ---------------------------------------------------------------- hashing / equality
def _h():
    return hashlib.sha1()


def _tensor_bytes(t):
    t = t.detach().cpu().contiguous()
    return ("%s%s" % (t.dtype, tuple(t.shape))).encode() + t.numpy().tobytes()


def params_hash(nets):
    """nets: {network name: mapping parameter name -> tensor}"""
    h = _h()
    for net in sorted(nets):
        for name in sorted(nets[net]):
            h.update(("%s.%s:" % (net, name)).encode())
            h.update(_tensor_bytes(nets[net][name]))
    return h.hexdigest()[:20]


def model_params(m):
    return {net: dict(getattr(m, net).named_parameters()) for net in m.networks}


def udict_hash(ud):
    h = _h()
    for k in sorted(ud):
        h.update(("%s:" % k).encode())
        h.update(_tensor_bytes(ud[k]))
    return h.hexdigest()[:20]


def canon(x):
    """Canonical byte form of a metadata value (kinds the installed torch.load accepts)."""
    if isinstance(x, torch.Tensor):
        return b"T(" + _tensor_bytes(x) + b")"
    if isinstance(x, collections.abc.Mapping):
        return b"D{" + b",".join(canon(k) + b"=" + canon(x[k]) for k in sorted(x, key=repr)) + b"}"
    if isinstance(x, (list, tuple)):
        return b"L[" + b",".join(canon(v) for v in x) + b"]"
    return ("%s:%r" % (type(x).__name__, x)).encode()


def meta_hash(d):
    return hashlib.sha1(canon(dict(d))).hexdigest()[:20]


def deep_eq(a, b):
    """same nesting, same scalar types and values, bit-identical tensors (dict flavours are not distinguished)"""
    return canon(a) == canon(b)


def clone_params(nets):
    return {net: {k: v.detach().clone() for k, v in d.items()} for net, d in nets.items()}


def params_equal(a, b):
    """bit identity of every named parameter; returns the first difference or None"""
    if sorted(a) != sorted(b):
        return "networks %s vs %s" % (sorted(a), sorted(b))
    for net in sorted(a):
        if sorted(a[net]) != sorted(b[net]):
            return "%s: parameter names %s vs %s" % (net, sorted(a[net]), sorted(b[net]))
        for k in sorted(a[net]):
            x, y = a[net][k], b[net][k]
            if x.dtype != y.dtype or x.shape != y.shape or not torch.equal(x, y):
                return "%s.%s differs" % (net, k)
    return None


def udict_equal(a, b):
    if sorted(a) != sorted(b):
        return "unitary names %s vs %s" % (sorted(a), sorted(b))
    for k in sorted(a):
        if a[k].dtype != b[k].dtype or a[k].shape != b[k].shape or not torch.equal(a[k], b[k]):
            return "unitary %s differs" % k
    return None


# ---------------------------------------------------------------- building the world
def shape_of_model(m, typ):
    """architecture as the object reports it AND as its tensors have it (they must agree)"""
    out = []
    for net in m.networks:
        r = getattr(m, net)
        if typ == "density":
            s = (r.num_visible, r.num_hidden, r.num_aux)
            t = (r.weights_W.shape[1], r.weights_W.shape[0], r.weights_U.shape[0])
            b = (r.visible_bias.shape[0], r.hidden_bias.shape[0], r.aux_bias.shape[0])
        else:
            s = (r.num_visible, r.num_hidden)
            t = (r.weights.shape[1], r.weights.shape[0])
            b = (r.visible_bias.shape[0], r.hidden_bias.shape[0])
        out.append((tuple(int(x) for x in s), tuple(int(x) for x in t), tuple(int(x) for x in b)))
    top = (m.num_visible, m.num_hidden) + ((m.num_aux,) if typ == "density" else ())
    out.append((tuple(int(x) for x in top),) * 3)
    flat = {x for trip in out for x in trip}
    return list(flat.pop()) if len(flat) == 1 else ["inconsistent", sorted(flat)]


def shape_of_state_dicts(d, typ):
    out = set()
    for net in NETS[typ]:
        sd = d[net]
        if typ == "density":
            out.add((sd["weights_W"].shape[1], sd["weights_W"].shape[0], sd["weights_U"].shape[0]))
            out.add((sd["visible_bias"].shape[0], sd["hidden_bias"].shape[0], sd["aux_bias"].shape[0]))
        else:
            out.add((sd["weights"].shape[1], sd["weights"].shape[0]))
            out.add((sd["visible_bias"].shape[0], sd["hidden_bias"].shape[0]))
    return [int(x) for x in out.pop()] if len(out) == 1 else ["inconsistent", sorted(out)]


def file_type(d):
    am = d.get("rbm_am")
    if isinstance(am, collections.abc.Mapping) and "weights_W" in am:
        return "density"
    ph = d.get("rbm_ph")
    if isinstance(ph, collections.abc.Mapping) and "weights" in ph:
        return "complex"
    return "positive"


_META_ROT = [0]


def make_meta(abstract_keys, tag):
    """A caller-owned metadata dict with the given abstract keys (values of every loadable kind)."""
    d = {}
    if "plain" in abstract_keys:
        d.update({"epoch": 3 + tag, "note": "run %d / plain text" % tag, "lr": 0.125 * (tag + 1),
                  "nested": {"a": [1, 2.5, {"b": "c", "t": torch.tensor([1.0, -2.0]) * (tag + 1)}], "z": []},
                  "tensor": (torch.arange(6, dtype=torch.double).reshape(2, 3) - tag) / 7.0})
    # a reserved NAME is refused whatever value the caller stored under it (falsy values included)
    _META_ROT[0] += 1
    r = _META_ROT[0]
    vals = ["not a network", 7, None, 0, False, "", {}, [], 0.0, torch.zeros(1), torch.tensor([1.0, 2.0])]
    if "rbm_am" in abstract_keys:
        d["rbm_am"] = vals[r % len(vals)]
    if "rbm_ph" in abstract_keys:
        d["rbm_ph"] = vals[(r + 3) % len(vals)]
    if "unitary_dict" in abstract_keys:
        d["unitary_dict"] = ([{"mine": [1, 2]}] + vals[2:9])[r % 8]
    return d


def abstract_keys(concrete):
    concrete = set(concrete)
    out = set()
    if PLAIN_KEYS <= concrete:
        out.add("plain")
        concrete -= PLAIN_KEYS
    for k in ("rbm_am", "rbm_ph", "unitary_dict"):
        if k in concrete:
            out.add(k)
            concrete.discard(k)
    return sorted(out) + sorted("?" + k for k in concrete)


DATA = {2: [[0.0, 1.0], [1.0, 0.0], [1.0, 1.0], [0.0, 1.0]],
        3: [[0.0, 1.0, 1.0], [1.0, 0.0, 1.0], [1.0, 1.0, 0.0], [0.0, 0.0, 1.0]],
        4: [[0.0, 1.0, 1.0, 0.0], [1.0, 0.0, 1.0, 1.0], [1.0, 1.0, 0.0, 0.0], [0.0, 0.0, 1.0, 1.0]],
        1: [[0.0], [1.0], [1.0], [0.0]]}


def arm(m, fault):
    """negative controls only: give this instance a deliberately wrong save/load"""
    if fault == "alias-meta":
        cls_save = type(m).save

        def save(location, metadata=None):
            r = cls_save(m, location, metadata)
            if metadata and hasattr(m, "unitary_dict"):
                metadata["unitary_dict"] = m.unitary_dict      # what save() did before it was repaired
            return r
        m.__dict__["save"] = save
    elif fault == "drop-phase":
        cls_load = type(m).load

        def load(location):
            keep = None
            if "rbm_ph" in m.networks:
                keep = {k: v.detach().clone() for k, v in m.rbm_ph.state_dict().items()}
            cls_load(m, location)
            if keep is not None:
                m.rbm_ph.load_state_dict(keep)
        m.__dict__["load"] = load
    elif fault is not None:
        raise common.MachineryError("unknown fault %r" % (fault,))
    return m


def nonzero_biases(m, rng):
    for net in m.networks:
        for name, p in getattr(m, net).named_parameters():
            if "bias" in name:
                p.data.copy_(torch.tensor(rng.uniform(0.2, 1.5, size=tuple(p.shape)) *
                                          rng.choice([-1.0, 1.0], size=tuple(p.shape)), dtype=p.dtype))


class Mismatch(Exception):
    def __init__(self, aspect, detail, known=False):
        Exception.__init__(self, aspect)
        self.aspect, self.detail, self.known = aspect, detail, known


class World:
    """Real models, real metadata dicts, real files for one behaviour."""

    def __init__(self, setup, tmpdir, seed, fit_train=True, fault=None):
        self.setup, self.dir, self.fit_train, self.fault = setup, tmpdir, fit_train, fault
        torch.manual_seed(seed)
        self.rng = np.random.RandomState(seed % (2 ** 31))
        self.types = list(setup["types"])
        self.models = []
        for t, s in zip(setup["types"], setup["shapes"]):
            self.models.append(self._arm(self._construct(t, s)))
        for m in self.models:
            self._nonzero_biases(m)
        self.metas = {"m0": make_meta(setup["keys"]["m0"], 0), "m1": make_meta(setup["keys"]["m1"], 1),
                      "m2": make_meta(setup["keys"]["m2"], 2)}
        self.pristine = copy.deepcopy(self.metas)
        self.m1_first = copy.deepcopy(self.metas["m1"])
        self.paths = [os.path.join(tmpdir, "f%d.pt" % (i + 1)) for i in range(2)]
        for p in self.paths:
            if os.path.exists(p):
                os.remove(p)
        kind = setup["saver"]
        if kind in self.metas:
            md = self.metas[kind]
        elif kind == "fn":
            first = self.m1_first
            md = (lambda nn_state, epoch: copy.deepcopy(first))
        else:
            md = None
        self.saver_md = md
        self.saver = ModelSaver(1, tmpdir, "f{}.pt", save_initial=False, metadata=md)
        self.saved = {}          # file index -> what the harness saw being saved (clones)
        self.n_unitaries = 0
        self.n_fits = 0
        self.polluted = set()

    # -- construction helpers
    _NCONS = [0]

    @staticmethod
    def _construct(t, s):
        World._NCONS[0] += 1
        with warnings.catch_warnings():
            warnings.simplefilter("ignore")
            if World._NCONS[0] % 3 == 0:
                # every third model is built around a user's RBM (the documented module= constructor); it is the same
                # abstract model: the requested sizes, fresh parameters, networks of its own
                from qucumber.rbm import BinaryRBM, PurificationRBM
                if t == "positive":
                    return PositiveWaveFunction(s[0], module=BinaryRBM(s[0], s[1], gpu=False), gpu=False)
                if t == "complex":
                    return ComplexWaveFunction(s[0], module=BinaryRBM(s[0], s[1], gpu=False), gpu=False)
                return DensityMatrix(s[0], module=PurificationRBM(s[0], s[1], s[2], gpu=False), gpu=False)
            if t == "positive":
                return PositiveWaveFunction(s[0], s[1], gpu=False)
            if t == "complex":
                return ComplexWaveFunction(s[0], s[1], gpu=False)
            return DensityMatrix(s[0], s[1], s[2], gpu=False)

    def _arm(self, m):
        return arm(m, self.fault)

    def _nonzero_biases(self, m):
        nonzero_biases(m, self.rng)

    # -- the calls
    def _fit_one_epoch(self, i, epoch, callbacks):
        m, t = self.models[i], self.types[i]
        nv = m.num_visible
        data = torch.tensor(DATA[nv], dtype=torch.double)
        # The specification's TrainStep yields parameters never seen before.  CD-k on a handful of binary rows has
        # finitely many possible gradients, so two epochs started from the same (re-loaded) parameters can coincide;
        # a learning rate that is different for every call of the behaviour (plus weight decay, so that every
        # parameter moves) makes the harness-side training an instance of the specification's action.
        self.n_fits += 1
        kw = dict(epochs=epoch, starting_epoch=epoch, pos_batch_size=2, k=1, lr=0.05 * (1.0 + 0.01 * self.n_fits),
                  optimizer_args={"weight_decay": 0.05}, callbacks=callbacks)
        if t != "positive":
            bases = np.array([["Z"] * nv, ["X"] + ["Z"] * (nv - 1), ["Z"] * nv, ["Z"] * (nv - 1) + ["X"]])
            kw["input_bases"] = bases
        with warnings.catch_warnings(), contextlib.redirect_stdout(io.StringIO()):
            warnings.simplefilter("ignore")
            m.fit(data, **kw)

    def _note_saved(self, i, f, meta):
        m = self.models[i]
        self.saved[f] = dict(type=self.types[i], params=clone_params(model_params(m)),
                             udict=({k: v.detach().clone() for k, v in m.unitary_dict.items()}
                                    if HAS_U[self.types[i]] else None),
                             meta=copy.deepcopy(meta), shape=shape_of_model(m, self.types[i]))

    def call(self, a):
        """Execute one labelled call; returns 'ok' / the exception class name."""
        op, i, f, k = a["op"], a["m"] - 1, a["f"] - 1, a["k"]
        if op == "Randomise":
            self.models[i].reinitialize_parameters()
            self._nonzero_biases(self.models[i])
        elif op == "TrainStep":
            if self.fit_train:
                self._fit_one_epoch(i, 1, [])
            else:
                for net in self.models[i].networks:
                    for p in getattr(self.models[i], net).parameters():
                        p.data.add_(torch.tensor(self.rng.normal(0.0, 0.1, size=tuple(p.shape)), dtype=p.dtype))
        elif op == "AddUnitary":
            self.n_unitaries += 1
            u = torch.tensor(self.rng.normal(size=(2, 2, 2)), dtype=torch.double)
            self.models[i].unitary_dict["U%d" % self.n_unitaries] = u
        elif op == "TouchMeta":
            md = self.metas[k]
            md["epoch"] += 1
            md["tensor"].add_(1.0)                      # in place: the same tensor object
            md["nested"]["a"].append(len(md["nested"]["a"]))
            md["note"] = md["note"] + "+"
            self.pristine[k] = copy.deepcopy(md)
        elif op == "Save":
            before = copy.deepcopy(self.metas[k])
            try:
                self.models[i].save(self.paths[f], self.metas[k])
            except ValueError as ex:
                return "ValueError"
            self._note_saved(i, f, before)
        elif op == "SaverTick":
            md = self.saver_md
            before = copy.deepcopy(md) if isinstance(md, dict) else (copy.deepcopy(self.m1_first) if md else {})
            try:
                self._fit_one_epoch(i, f + 1, [self.saver])
            except ValueError as ex:
                return "ValueError"
            self._note_saved(i, f, before)
        elif op == "Load":
            self.models[i].load(self.paths[f])
        elif op == "Autoload":
            with warnings.catch_warnings():
                warnings.simplefilter("ignore")         # "Could not find GPU" for the positive default gpu=True
                cls = CLASSES[self.types[i]]
                new = cls.autoload(self.paths[f]) if self.rng.rand() < 0.5 else cls.autoload(self.paths[f], gpu=False)
            self.models[i] = self._arm(new)
        else:
            raise common.MachineryError("unknown op %r" % (a,))
        return "ok"

    # -- projection
    def observe(self):
        obs = dict(models=[], files=[], metas={})
        for m, t in zip(self.models, self.types):
            obs["models"].append(dict(cls=type(m).__name__, shape=shape_of_model(m, t), p=params_hash(model_params(m)),
                                      u=udict_hash(m.unitary_dict) if HAS_U[t] else None))
        for p in self.paths:
            if not os.path.exists(p):
                obs["files"].append(None)
                continue
            try:
                d = torch.load(p)                          # the installed default, as the library itself calls it
            except Exception as ex:
                obs["files"].append(dict(unreadable=repr(ex)[:300]))
                continue
            t = file_type(d)
            special = set(NETS[t]) | ({"unitary_dict"} if HAS_U[t] else set())
            meta = {k: v for k, v in d.items() if k not in special}
            obs["files"].append(dict(type=t, keys=sorted(d), shape=shape_of_state_dicts(d, t),
                                     p=params_hash({n: d[n] for n in NETS[t]}),
                                     u=udict_hash(d["unitary_dict"]) if HAS_U[t] and "unitary_dict" in d else None,
                                     v=meta_hash(meta), mkeys=abstract_keys(meta), raw=d, meta=meta))
        for k, md in self.metas.items():
            obs["metas"][k] = dict(keys=abstract_keys(md), v=meta_hash(md), same=deep_eq(md, self.pristine[k]),
                                   extra=sorted(set(md) - set(self.pristine[k])))
        return obs


# ---------------------------------------------------------------- comparison with the spec state
class Tokens:
    """token <-> hash bijection per token space, across the steps of one behaviour"""

    def __init__(self, reserved):
        self.live = {s: dict(r) for s, r in reserved.items()}
        self.reserved = {s: dict(r) for s, r in reserved.items()}
        self.seen = {s: set(r.values()) for s, r in reserved.items()}

    def step(self, space, pairs):
        """pairs: list of (location, spec token, real hash).  Raises Mismatch."""
        new = {}
        for loc, tok, h in pairs:
            if tok in new and new[tok][1] != h:
                raise Mismatch(space + "-differs", dict(locations=[new[tok][0], loc], token=tok,
                                                        note="the specification says these hold the same content"))
            new.setdefault(tok, (loc, h))
        byhash = {}
        for tok, (loc, h) in new.items():
            if h in byhash and byhash[h][0] != tok:
                raise Mismatch(space + "-coincides", dict(locations=[byhash[h][1], loc], tokens=[byhash[h][0], tok],
                                                          note="the specification says these hold different content"))
            byhash[h] = (tok, loc)
        for tok, (loc, h) in new.items():
            old = self.live[space].get(tok)
            if old is not None:
                if old != h:
                    raise Mismatch(space + "-changed", dict(location=loc, token=tok,
                                                            note="content changed although the specification keeps it"))
            elif h in self.seen[space]:
                raise Mismatch(space + "-not-fresh", dict(location=loc, token=tok,
                                                          note="content equals an earlier one although the specification makes it new"))
        self.live[space] = dict(self.reserved[space])
        for tok, (loc, h) in new.items():
            self.live[space][tok] = h
            self.seen[space].add(h)


def reserved_tokens(world):
    return {"p": {}, "u": {0: udict_hash(unitaries.create_dict())},
            "v": {0: meta_hash({}), 1: meta_hash(world.m1_first)}}


def compare(world, obs, spec, tokens, skip_metas=()):
    """spec: one element of a behaviour's hist (state after the call).  Raises Mismatch."""
    P, U, V = [], [], []
    for i, (sm, om) in enumerate(zip(spec["models"], obs["models"])):
        loc = "model%d" % (i + 1)
        if om["cls"] != CLASSES[sm["type"]].__name__:
            raise Mismatch("model-class", dict(location=loc, expected=sm["type"], got=om["cls"]))
        if om["shape"] != sm["shape"]:
            raise Mismatch("architecture", dict(location=loc, expected=sm["shape"], got=om["shape"]))
        P.append((loc, sm["pver"], om["p"]))
        if HAS_U[sm["type"]]:
            U.append((loc, sm["udict"], om["u"]))
    for i, (sf, of) in enumerate(zip(spec["files"], obs["files"])):
        loc = "file%d" % (i + 1)
        if not sf["present"]:
            if of is not None:
                raise Mismatch("file-appeared", dict(location=loc, got={k: v for k, v in of.items() if k not in ("raw", "meta")}))
            continue
        if of is None:
            raise Mismatch("file-missing", dict(location=loc))
        if "unreadable" in of:
            raise Mismatch("file-unreadable", dict(location=loc, error=of["unreadable"]))
        if of["type"] != sf["type"]:
            raise Mismatch("file-type", dict(location=loc, expected=sf["type"], got=of["type"], keys=of["keys"]))
        if of["shape"] != sf["shape"]:
            raise Mismatch("file-architecture", dict(location=loc, expected=sf["shape"], got=of["shape"]))
        if of["mkeys"] != sorted(sf["meta"]["keys"]):
            raise Mismatch("file-metadata-keys", dict(location=loc, expected=sorted(sf["meta"]["keys"]), got=of["mkeys"],
                                                      keys=of["keys"]))
        if HAS_U[sf["type"]] and of["u"] is None:
            raise Mismatch("file-no-unitary-dict", dict(location=loc, keys=of["keys"]))
        P.append((loc, sf["pver"], of["p"]))
        if HAS_U[sf["type"]]:
            U.append((loc, sf["udict"], of["u"]))
        V.append((loc, sf["meta"]["ver"], of["v"]))
    for k in sorted(spec["metas"]):
        if k in skip_metas:
            continue
        sm, om = spec["metas"][k], obs["metas"][k]
        if om["keys"] != sorted(sm["keys"]) or not om["same"]:
            raise Mismatch("caller-metadata-changed", dict(meta=k, expected_keys=sorted(sm["keys"]), got_keys=om["keys"],
                                                           extra_keys=om["extra"]))
        V.append(("meta " + k, sm["ver"], om["v"]))
    tokens.step("p", P)
    tokens.step("u", U)
    tokens.step("v", V)


def check_restored(world, a, obs):
    """After Load / Autoload: bit identity with what was saved, architecture, unitary dictionary."""
    i, f = a["m"] - 1, a["f"] - 1
    m, t, sv = world.models[i], world.types[i], world.saved.get(f)
    if sv is None:
        raise common.MachineryError("load from a file the harness never saw being saved")
    d = params_equal(model_params(m), sv["params"])
    if d:
        raise Mismatch("parameters-not-restored", dict(what=d))
    of = obs["files"][f]
    d = params_equal(model_params(m), {n: dict(of["raw"][n]) for n in NETS[t]})
    if d:
        raise Mismatch("parameters-differ-from-file", dict(what=d))
    if shape_of_model(m, t) != sv["shape"]:
        raise Mismatch("architecture", dict(expected=sv["shape"], got=shape_of_model(m, t)))
    if HAS_U[t]:
        d = udict_equal(m.unitary_dict, sv["udict"])
        if d:
            raise Mismatch("unitary-dict-not-restored", dict(what=d))
    for net in m.networks:
        for name, p in getattr(m, net).named_parameters():
            if p.requires_grad or p.dtype != torch.double:
                raise Mismatch("parameter-kind", dict(net=net, name=name, dtype=str(p.dtype), requires_grad=p.requires_grad))


def check_stored(world, a, obs, k_used):
    """After an accepted save: the file holds exactly networks + unitary_dict + the caller's entries,
    equal to what the harness saw being saved."""
    f = a["f"] - 1
    sv, of = world.saved[f], obs["files"][f]
    if of is None or "unreadable" in of:
        raise Mismatch("file-missing", dict(location="file%d" % (f + 1)))
    t = sv["type"]
    want = set(NETS[t]) | ({"unitary_dict"} if HAS_U[t] else set()) | set(sv["meta"])
    if set(of["keys"]) != want:
        raise Mismatch("file-keys", dict(expected=sorted(want), got=of["keys"]))
    d = params_equal({n: dict(of["raw"][n]) for n in NETS[t]}, sv["params"])
    if d:
        raise Mismatch("file-parameters", dict(what=d))
    if HAS_U[t]:
        d = udict_equal(of["raw"]["unitary_dict"], sv["udict"])
        if d:
            raise Mismatch("file-unitary-dict", dict(what=d))
    if not deep_eq(of["meta"], sv["meta"]):
        raise Mismatch("file-metadata", dict(expected_keys=sorted(sv["meta"]), got_keys=sorted(of["meta"])))


def call_text(a):
    """a labelled call as the python statement the replay executes (for reports)"""
    m, f, k = "model%d" % a["m"], "file%d" % a["f"], a["k"]
    return {"Randomise": "%s.reinitialize_parameters(); <non-zero biases>" % m,
            "TrainStep": "%s.fit(data, epochs=1, ...)" % m,
            "AddUnitary": "%s.unitary_dict['U<n>'] = <random 2x2>" % m,
            "TouchMeta": "<edit values of %s in place>" % k,
            "Save": "%s.save(%s, %s)" % (m, f, k),
            "Load": "%s.load(%s)" % (m, f),
            "Autoload": "%s = type(%s).autoload(%s)" % (m, m, f),
            "SaverTick": "%s.fit(data, epochs=1, callbacks=[ModelSaver(1, dir, ..., metadata=<saver>)]) -> %s" % (m, f),
            }[a["op"]] + ("   # expected: " + a["out"] if a["out"] != "ok" else "")


def run_behaviour(chk, beh, tmpdir, seed, fit_train=True, fault=None, key="replay"):
    """Drive one exported behaviour.  Returns the number of calls that were executed and compared."""
    setup = beh["setup"]
    world = World(setup, tmpdir, seed, fit_train=fit_train, fault=fault)
    tokens = Tokens(reserved_tokens(world))
    done = 0
    steps = [h["a"] for h in beh["hist"]]
    init = dict(models=[dict(type=t, shape=s, pver=i, udict=0) for i, (t, s) in enumerate(zip(setup["types"], setup["shapes"]))],
                files=[dict(present=False)] * 2,
                metas={k: dict(keys=setup["keys"][k], ver={"m0": 0, "m1": 1, "m2": 2}[k]) for k in ("m0", "m1", "m2")})

    def report(a, n, aspect, detail, known):
        typ = world.types[a["m"] - 1] if a["m"] else "-"
        k = KNOWN if known else "%s:%s:%s:%s" % (key, a["op"], typ, aspect)
        chk.violation(k, dict(setup=setup, calls=[call_text(x) for x in steps[:n + 1]], failing_call=a, aspect=aspect,
                              detail=detail, seed=seed, fit_train=fit_train,
                              behaviour=dict(setup=setup, hist=beh["hist"][:n + 1])))

    try:
        compare(world, world.observe(), init, tokens)
    except Mismatch as mm:
        raise common.MachineryError("initial world does not match the specification's Init: %s %s" % (mm.aspect, mm.detail))
    for n, h in enumerate(beh["hist"]):
        a = h["a"]
        used = a["k"] if a["op"] == "Save" else (setup["saver"] if a["op"] == "SaverTick" else None)
        try:
            try:
                out = world.call(a)
            except Exception as ex:
                raise Mismatch("exception:" + type(ex).__name__, dict(error=repr(ex)[:400]))
            if out != a["out"]:
                raise Mismatch("outcome", dict(expected=a["out"], got=out), known=(used in world.polluted))
            obs = world.observe()
            # a save that changed the caller's own dict: the known class, reported under its own key
            if a["op"] in ("Save", "SaverTick") and used in world.metas and used not in world.polluted:
                om = obs["metas"][used]
                if not om["same"]:
                    report(a, n, "caller-metadata-changed", dict(meta=used, keys_before=sorted(world.pristine[used]),
                                                                 keys_after=sorted(world.metas[used]), added=om["extra"]), True)
                    world.polluted.add(used)
            compare(world, obs, h, tokens, skip_metas=world.polluted)
            if a["op"] in ("Save", "SaverTick") and out == "ok":
                check_stored(world, a, obs, used)
            if a["op"] in ("Load", "Autoload"):
                check_restored(world, a, obs)
        except Mismatch as mm:
            known = mm.known or (bool(world.polluted) and a["op"] in ("Save", "SaverTick") and used in world.polluted)
            report(a, n, mm.aspect, mm.detail, known)
            return done
        done += 1
    return done
