"""Shared by check_c08 / check_c09: cases for the abstract-field theorems (Observables.tla,
Swap.tla), exact evaluation of lattice states from the RBM.tla / PurifRBM.tla exports, and the
recorder of importance-sampling queries.  No estimator semantics lives here: operators, swap
tables, partial-trace structure and pairing all come from TLC exports."""
import mpmath
import torch

import check_c02
import common
import lattice
import terms
import tlc

WORKERS = 8
HEAP = "4g"

# ---------------------------------------------------------------------------------------------
# abstract exact field
AMPS = [(1, 0), (-1, 0), (0, 1), (0, -1), (1, 1), (2, 0)]
W1 = [(1, 0), (0, 1), (1, 1), (2, 0)]
W2 = [(2, 0), (-1, 0), (0, -1), (1, 1)]
W3 = [(1, 0), (0, 1), (1, 1), (2, 0), (0, -1), (-1, 0), (2, 0), (1, 1)]
W4 = [(1, 1), (2, 0), (-1, 0), (0, 1), (1, 0), (1, 1), (0, -1), (2, 0)]
WITNESS = [dict(kind="pure", n=2, vs=[W1]), dict(kind="mixed", n=2, vs=[W1, W2]),
           dict(kind="pure", n=3, vs=[W3]), dict(kind="mixed", n=3, vs=[W3, W4])]


def tla_case(c):
    return tlc.tla_value(dict(kind=c["kind"], n=c["n"], vs=[[list(a) for a in v] for v in c["vs"]]))


def tla_seq(items):
    return "<<" + ", ".join(items) + ">>"


def rand_vec(rng, n):
    return [rng.choice(AMPS) for _ in range(2 ** n)]


def rand_case(rng, n):
    kind = rng.choice(["pure", "mixed", "mixed"])
    nvec = 1 if kind == "pure" else rng.choice([1, 2, 2])
    return dict(kind=kind, n=n, vs=[rand_vec(rng, n) for _ in range(nvec)])


def abstract_defs(rng, n_second, n_supplied, ops_ns, faults, nsup=3):
    second = [rand_vec(rng, 2) for _ in range(n_second)]
    supplied = [rand_case(rng, nsup) for _ in range(n_supplied)]
    defs = {"Amps": "{" + ", ".join("<<%s, %s>>" % (tlc.tla_value(a), tlc.tla_value(b)) for a, b in AMPS) + "}",
            "Second": tla_seq(tlc.tla_value([list(a) for a in v]) for v in second),
            "Supplied": tla_seq(tla_case(c) for c in supplied),
            "OpsNs": "{" + ", ".join(str(n) for n in ops_ns) + "}",
            "TabNs": "{" + ", ".join(str(n) for n in sorted(set(ops_ns) | {1, 2, 3})) + "}",
            "Witness": tla_seq(tla_case(c) for c in WITNESS),
            "Faults": "{" + ", ".join('"%s"' % f for f in faults) + "}"}
    return defs, dict(second=len(second), supplied=len(supplied))


# ---------------------------------------------------------------------------------------------
# exact lattice states
def lattice_exports(chk, rng, n_pure, n_purif, nvmax, seed, budget=280):
    """Seeded lattice points (all parameters non-zero) run through RBM.tla / PurifRBM.tla exactly as
    C01 / C02 do: TLC checks that the exported factor forms are the defining sums, the exports give
    psi / rho exactly."""
    pts = [lattice.random_point(rng, nvmax=nvmax, nhmax=3, budget=budget) for _ in range(n_pure)]
    for i, p in enumerate(pts[:nvmax]):           # every nv is present
        if p["nv"] != i + 1:
            q = lattice.random_point(rng, nvmax=nvmax, nhmax=3, budget=budget)
            while q["nv"] != i + 1:
                q = lattice.random_point(rng, nvmax=nvmax, nhmax=3, budget=budget)
            pts[i] = q
    for i in range(max(1, n_pure // 5)):           # and the far corner (tiny unnormalised weights)
        pts[-1 - i] = lattice.random_point(rng, nvmax=nvmax, nhmax=3, budget=budget, extreme=True)
    if n_pure >= 6:                                # and the opposite corner (huge unnormalised weights)
        pts[len(pts) // 2] = lattice.random_point(rng, nvmax=nvmax, huge=True)
    pf = lattice.PointsFile(pts)
    try:
        r1 = tlc.run("RBM", constants={"TMax": 1000, "Lanes": 16}, defs={"Archs": "{}", "Vals": "{1}"},
                     invariants=["WellDefined", "Marginal", "Partition", "Export"],
                     env={"POINTS_FILE": pf.path}, workers=WORKERS, heap=HEAP, timeout=1500, seed=seed)
    finally:
        pf.close()
    qts = [lattice.random_purif_point(rng, nvmax=nvmax, nhmax=3, namax=3, budget=budget) for _ in range(n_purif)]
    for i in range(min(nvmax, len(qts))):
        while qts[i]["nv"] != i + 1:
            qts[i] = lattice.random_purif_point(rng, nvmax=nvmax, nhmax=3, namax=3, budget=budget)
    for i in range(max(1, n_purif // 5)):
        qts[-1 - i] = lattice.random_purif_point(rng, nvmax=nvmax, nhmax=3, namax=3, budget=budget, extreme=True)
    if n_purif >= 6:
        qts[len(qts) // 2] = lattice.random_purif_point(rng, nvmax=nvmax, huge=True)
    pf = lattice.PointsFile(qts)
    try:
        r2 = tlc.run("PurifRBM", constants={"TMax": 1000, "Lanes": 16}, defs={"Archs": "{}", "Vals": "{1}"},
                     invariants=["WellDefined", "Marginal", "PartialTrace", "Hermitian", "Diagonal", "TraceIsZ", "Export"],
                     env={"POINTS_FILE": pf.path}, workers=WORKERS, heap=HEAP, timeout=1500, seed=seed)
    finally:
        pf.close()
    for r, label, want in ((r1, "RBM.tla Marginal/Partition (lattice points for psi)", len(pts)),
                           (r2, "PurifRBM.tla PartialTrace/Diagonal/TraceIsZ (lattice points for rho)", len(qts))):
        chk.add_tlc(r, label)
        if r.violation:
            raise common.MachineryError("lattice specification rejected a point (%s): %s\n%s"
                                        % (label, r.violation, r.raw[-1500:]))
        if len({e["idx"] for e in r.exports if e["idx"] > 0}) != want:
            raise common.MachineryError("TLC did not handle every supplied point (%s)" % label)
    return sorted(r1.exports, key=lambda e: e["idx"]), sorted(r2.exports, key=lambda e: e["idx"])


class ExactState:
    """A real QuCumber state at a lattice point + its exactly evaluated psi / rho (mpmath, 50 digits).
    num(kp, k) / den(k) are the importance-sampling numerator / denominator the library documents:
    psi(s') and psi(s) for pure states, rho(s', s) and rho(s, s) for mixed ones."""

    def __init__(self, kind, model, pt, n, psi=None, rho=None, rel=1e-9, relmat=None):
        self.kind, self.model, self.pt, self.n, self.N = kind, model, pt, n, 2 ** n
        self.psi, self.rho_m, self.rel, self.relmat = psi, rho, rel, relmat
        self.pure = psi is not None
        if self.pure:
            self.w = [abs(x) ** 2 for x in psi]
        else:
            self.w = [rho[k][k].real for k in range(self.N)]
        self.Z = sum(self.w)

    def rho(self, k, l):
        if self.pure:
            return self.psi[k] * mpmath.conj(self.psi[l])
        return self.rho_m[k][l]

    def ratio(self, kp, k):
        """(numerator(s', s) / denominator(s), absolute tolerance for the code's float64 value)"""
        if kp == k:
            # pure: psi(s)/psi(s) through one code path; mixed: rho(s, s) and probability(s) are computed by
            # different code paths (closed-form pi vs. effective energy), each within `rel` of the exact value
            return mpmath.mpc(1), mpmath.mpf(4e-15) if self.pure else mpmath.mpf(2 * self.rel)
        if self.pure:
            r = self.psi[kp] / self.psi[k]
            return r, 3 * self.rel * abs(r) + mpmath.mpf(10) ** -300
        r = self.rho_m[kp][k] / self.w[k]
        tol = self.relmat[kp][k] * mpmath.sqrt(self.w[kp] * self.w[k]) / self.w[k] + 2 * self.rel * abs(r)
        return r, tol + mpmath.mpf(10) ** -300

    def representable(self):
        lo, hi = mpmath.mpf(10) ** -140, mpmath.mpf(10) ** 140
        return all(lo < x < hi for x in self.w)

    def describe(self):
        return dict(state=self.kind, point=self.pt)


def pure_states(e):
    """PositiveWaveFunction and ComplexWaveFunction at the point of an RBM.tla export (as check_c01)."""
    nv, nh, B = e["nv"], e["nh"], e["B"]
    pt = dict(nv=nv, nh=nh, B=B, am=e["am"], ph=e["ph"])
    p = [terms.fac(B, r["k"], r["ms"]) for r in e["pam"]]
    r_ = [terms.fac(B, r["k"], r["ms"]) for r in e["pph"]]
    amp = [terms.sqrt(x) for x in p]
    rel = 1e-9 + nh * 2.1e-9                       # torch softplus threshold, see check_c01
    pos = ExactState("positive", lattice.positive_state(pt), pt, nv, psi=[mpmath.mpc(a) for a in amp], rel=rel)
    cx = ExactState("complex", lattice.complex_state(pt), pt, nv,
                    psi=[a * terms.cis(terms.ln(q) / 2) for a, q in zip(amp, r_)], rel=rel)
    return [pos, cx]


def density_state(e):
    """DensityMatrix at the point of a PurifRBM.tla export; rho from check_c02.exact_rho."""
    pt = e["pt"]
    rho, _, _ = check_c02.exact_rho(e)
    N = 2 ** pt["nv"]
    rel = 1e-9 + (pt["nh"] + pt["na"]) * 2.1e-9
    relmat = [[1e-7 if check_c02.cancels(e["G"][i][j]) else rel for j in range(N)] for i in range(N)]
    return ExactState("density", lattice.density_state(pt), pt, pt["nv"], rho=rho, rel=rel, relmat=relmat)


def index_of(row):
    k = 0
    for b in row:
        k = 2 * k + int(b)
    return k


# ---------------------------------------------------------------------------------------------
class Queries:
    """Records the importance-sampling queries an observable makes on a state, by wrapping the two
    methods ON THE INSTANCE (restored on exit).  Arguments are copied at call time; the wrappers
    only observe."""

    def __init__(self, model):
        self.model = model
        self.num, self.den = [], []
        self.num_ids, self.den_ids = [], []

    def __enter__(self):
        m = self.model
        orig_num, orig_den = m.importance_sampling_numerator, m.importance_sampling_denominator

        def num(vp, v):
            self.num.append((vp.detach().clone(), v.detach().clone()))
            self.num_ids.append((id(vp), id(v)))
            return orig_num(vp, v)

        def den(v):
            self.den.append(v.detach().clone())
            self.den_ids.append(id(v))
            return orig_den(v)

        m.importance_sampling_numerator = num
        m.importance_sampling_denominator = den
        return self

    def __exit__(self, *a):
        for name in ("importance_sampling_numerator", "importance_sampling_denominator"):
            if name in self.model.__dict__:
                del self.model.__dict__[name]
        return False


def rows_of(t):
    return [index_of(r) for r in t.tolist()]


def random_batch(rng, n, m, distinct=False):
    if distinct:
        ks = rng.sample(range(2 ** n), m)
    else:
        ks = [rng.randrange(2 ** n) for _ in range(m)]
    rows = lattice.rows(n)
    return torch.tensor([rows[k] for k in ks], dtype=torch.double), ks
