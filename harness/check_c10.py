"""C10 - Fidelity, KL divergence and NLL report the quantities they are named for.

spec/Metrics.tla (+ MetricsArith.tla) states the three metrics over an abstract exact field (Gaussian-integer
state vectors, Gram matrices): fidelity as normalised squared overlap, the Born distribution of target and model
in every basis through the dense Kronecker unitary (definition) and through the per-sample expansion the library
uses (algorithm), the KL plan (which bases, which source, which divisor) for the three target forms, the NLL plan
(grouping of rows by basis, divisor), the algebra behind the closed forms of the Uhlmann fidelity and the
deprecated keyword aliases.  TLC decides on every enumerated case: 0 <= F <= 1, F(psi,psi) = 1, invariance under
t -> i^k t and under exchange of the arguments; unitarity, T_b and Q_b are probability vectors, expansion =
definition, T_b = Q_b termwise against the model's own state (tensor and dict form); KL is the mean over exactly
the requested bases (permutation invariant, duplicates counted, dict keys must equal the bases); NLL visits every
row once in the group of its own basis, divides by the number of rows, equals the per-row product for every row
permutation; M^2 = cM / det / trace identities of the mixed closed forms.  Planted faults show each invariant
bites.

Binding spec -> code: RBM.tla / PurifRBM.tla give lattice points with exact psi / rho (as in C01 / C02); the
exported structure (dense unitaries as Gaussian integers, plans, Gaussian-integer targets) is evaluated on those
exact states with 50-digit atoms and compared with fidelity / KL / NLL of PositiveWaveFunction,
ComplexWaveFunction and DensityMatrix set to the same points, together with the type of every returned object.
"""
import concurrent.futures
import copy
import json
import math
import random

import mpmath
import numpy as np
import torch

import common
import lattice
import tlc
import metrics_eval as me
import metrics_bind as mb
from metrics_bind import ts

PID = "C10"

INVARIANTS = ["FidRange", "FidSelf", "FidPhase", "KronIndex", "Unitary", "ReferenceIsIdentity", "BornPure",
              "BornMixed", "ExpandPure", "ExpandMixed", "OwnState", "PlanIsMean", "PlanRequested", "PlanMismatch",
              "PlanPermutation", "NLLPartition", "NLLDivisor", "NLLProduct", "NLLPermutation", "NLLNoBases",
              "GramPSD", "MixPure", "MixRank1", "MixSelf", "MixQubit", "CallRule"]
EXPORT = ('MC_Export == pc = "Done" => (cs.kind = "born" /\\ ~(cs.i = 1 /\\ cs.j = 1)) \\/ (cs.kind = "fid" /\\ cs.i # 1)'
          ' \\/ PrintT(ToJson(ExportRec))')
# (fault planted in the SPEC, shard kind explored, the invariant that must catch it)
FAULTS = [("fid-no-Z", "fid", "FidSelf", "fidelity without the division by Z"),
          ("kl-div-sites", "kl", "PlanIsMean", "KL averaged by the number of sites"),
          ("nll-div-groups", "nll", "NLLDivisor", "NLL divided by the number of groups"),
          ("gather-transposed", "born", "OwnState", "explicit rho gathered transposed in the per-sample expansion"),
          ("transposed-unitary", "born", "KronIndex", "rotation with the transposed single-site unitary")]


# ---------------------------------------------------------------------------------------------------------
# configuration of the TLC runs
def tla(v):
    if isinstance(v, (list, tuple)):
        return "<<" + ", ".join(tla(x) for x in v) + ">>"
    if isinstance(v, str):
        return '"%s"' % v
    return str(v) if v >= 0 else "(-%d)" % (-v)


def gvec(rng, n, mag, nonreal=True):
    while True:
        v = [[rng.randint(-mag, mag), rng.randint(-mag, mag)] for _ in range(2 ** n)]
        if any(a or b for a, b in v) and (not nonreal or any(b for _, b in v)):
            return v


def rand_basis(rng, n, need=None):
    while True:
        b = [rng.choice("XYZ") for _ in range(n)]
        if any(c != "Z" for c in b) and (need is None or need in b):
            return b


def config(tier, seed):
    rng = random.Random(seed * 7 + 1)
    big = tier == "thorough"
    ns = [1, 2, 3, 4] if big else [1, 2, 3]
    size = {1: 10 if big else 6, 2: 10 if big else 6, 3: 5 if big else 3, 4: 3}
    mag = {1: 2, 2: 2, 3: 2 if not big else 1, 4: 1}
    pool = {}
    for n in ns:
        vs = [gvec(rng, n, mag[n]) for _ in range(size[n] - 1)]
        unit = [[0, 0] for _ in range(2 ** n)]
        unit[rng.randrange(2 ** n)] = [0, 1]                     # i * e_k : a target with exact zeros
        pool[n] = vs[:1] + [unit] + vs[1:]
    bases, rowb = {}, {}
    for n in ns:
        allz = ["Z"] * n
        if n <= 2:
            rb = [allz, rand_basis(rng, n, "Y")]
            if n == 2:
                rb.append(rand_basis(rng, n, "X"))
                if big:
                    rb.append(rand_basis(rng, n))
            else:
                rb.append(["X"])
            rowb[n] = dedup(rb)
        else:
            bs = [allz, rand_basis(rng, n, "Y"), ["Y"] * n, rand_basis(rng, n, "X")]
            bs += [rand_basis(rng, n) for _ in range((6 if n == 3 else 1) if big else 1)]
            bases[n] = dedup(bs)
            rowb[n] = [allz, bases[n][1]]
    lim = {1: dict(L=4, K=3, M=4) if big else dict(L=3, K=2, M=3),
           2: dict(L=3, K=2, M=3) if big else dict(L=2, K=2, M=3),
           3: dict(L=2, K=2 if big else 1, M=2), 4: dict(L=2, K=1, M=2)}
    top = max(ns)
    defs = {"NSet": "{" + ", ".join(map(str, ns)) + "}",
            "Pool": "<<" + ", ".join(tla(pool[n]) for n in ns) + ">>",
            "BasesOf(n)": 'IF n <= 2 THEN [1..n -> {"X", "Y", "Z"}] ELSE ' + " ELSE ".join(
                ("IF n = %d THEN " % n if n < top else "") + "{" + ", ".join(tla(b) for b in bases[n]) + "}" for n in ns if n > 2),
            "RowBases(n)": " ELSE ".join(("IF n = %d THEN " % n if n < top else "") + "{" + ", ".join(tla(b) for b in rowb[n]) + "}"
                                         for n in ns),
            "Lim(n)": " ELSE ".join(("IF n = %d THEN " % n if n < top else "") + "[L |-> %(L)d, K |-> %(K)d, M |-> %(M)d]" % lim[n]
                                    for n in ns)}
    return defs, dict(ns=ns, pool=pool, bases=bases, rowb=rowb, lim=lim)


def dedup(bs):
    out = []
    for b in bs:
        if b not in out:
            out.append(b)
    return out


def run_metrics(defs, kinds, fault="", invariants=None, export=True, workers=8, timeout=1500):
    d = dict(defs, Kinds="{" + ", ".join('"%s"' % k for k in kinds) + "}", Fault='"%s"' % fault)
    inv = list(invariants or INVARIANTS) + (["MC_Export"] if export else [])
    return tlc.run("Metrics", defs=d, invariants=inv, extends_extra=["Json"], extra_text=EXPORT if export else "",
                   workers=workers, heap="4g", timeout=timeout)


def lattice_runs(tier, seed):
    """lattice points with exact psi / rho: TLC checks the identities of C01 / C02 at each and exports the factor forms"""
    rng = random.Random(seed * 11 + 3)
    big = tier == "thorough"
    nvmax = 4 if big else 3
    wpts = []
    for i in range(260 if big else 36):
        nv, nh, B = rng.randint(1, nvmax), rng.randint(1, 3), rng.choice([2, 3])
        mag = rng.choice([1, 1, 2, 2, 3, 5, 9])
        wpts.append(dict(nv=nv, nh=nh, B=B, am=lattice.random_net(rng, nv, nh, mag), ph=lattice.random_net(rng, nv, nh, mag)))
    ppts = []
    for i in range(240 if big else 34):
        p = lattice.random_purif_point(rng, nvmax=nvmax, nhmax=2, namax=2, budget=260, small=(i % 3 == 0))
        if i % 5 == 4:            # rank-one models: U_lambda = U_mu = 0
            p["u"] = [[0] * p["nv"] for _ in range(p["na"])]
            p["um"] = [[0] * p["nv"] for _ in range(p["na"])]
        ppts.append(p)
    pf = lattice.PointsFile(wpts)
    try:
        r1 = tlc.run("RBM", constants={"TMax": 420, "Lanes": 8}, defs={"Archs": "{<<1,1,2>>, <<2,1,3>>}", "Vals": "{-1, 2}"},
                     invariants=["WellDefined", "Marginal", "Partition", "Export"], env={"POINTS_FILE": pf.path},
                     workers=3, heap="4g", timeout=1500, seed=seed)
    finally:
        pf.close()
    pf = lattice.PointsFile(ppts)
    try:
        r2 = tlc.run("PurifRBM", constants={"TMax": 420, "Lanes": 8}, defs={"Archs": "{<<1,1,1,2>>, <<2,1,1,3>>}", "Vals": "{-1, 2}"},
                     invariants=["WellDefined", "Marginal", "PartialTrace", "Hermitian", "Diagonal", "TraceIsZ", "Export"],
                     env={"POINTS_FILE": pf.path}, workers=3, heap="4g", timeout=1500)
    finally:
        pf.close()
    for r, npts in ((r1, len(wpts)), (r2, len(ppts))):
        if r.violation:
            raise common.MachineryError("lattice specification rejected a point (%s): this belongs to C01/C02\n%s" % (r.violation, r.raw[-1500:]))
        if len({e["idx"] for e in r.exports if e["idx"] > 0}) != npts:
            raise common.MachineryError("TLC did not handle every supplied lattice point")
    return r1, r2


def fault_runs(defs):
    out = []
    for fault, kind, inv, what in FAULTS:
        r = run_metrics(defs, [kind], fault=fault, invariants=[inv], export=False, workers=1, timeout=600)
        out.append((fault, inv, what, r))
    return out


# ---------------------------------------------------------------------------------------------------------
# the case library exported by Metrics.tla
class Library:
    def __init__(self, exports):
        self.U, self.fid, self.kl, self.nll, self.mix, self.calls = {}, {}, {}, {}, {}, []
        seen = set()
        for e in exports:
            k, n = e["kind"], e.get("n")
            if k == "born":
                self.U.setdefault(n, {})["".join(e["U"]["basis"])] = me.Unitary(e["U"])
            elif k == "fid":
                key = json.dumps([n, e["t"], e["k"]])
                if key not in seen:
                    seen.add(key)
                    self.fid.setdefault(n, []).append(e)
            elif k == "kl":
                self.kl.setdefault(n, {}).setdefault(kl_class(e), []).append(e)
            elif k == "nll":
                self.nll.setdefault(n, {}).setdefault(nll_class(e), []).append(e)
            elif k == "mixfid":
                key = json.dumps([n, e["fam"], e["vecs"]])
                if key not in seen:
                    seen.add(key)
                    self.mix.setdefault(n, {}).setdefault(e["fam"], []).append(e)
            elif k == "call":
                self.calls.append(e)
        self.cursor = {}

    def take(self, table, n, count, rng):
        """`count` cases for n sites, walking round-robin through the classes so that every class is used"""
        classes = sorted(table.get(n, {}))
        out = []
        for _ in range(count):
            if not classes:
                break
            c = self.cursor.get((id(table), n), 0)
            self.cursor[(id(table), n)] = c + 1
            cl = classes[c % len(classes)]
            out.append(rng.choice(table[n][cl]))
        return out


def kl_class(e):
    if e["plan"]["status"] == "mismatch":
        keys = {"".join(b) for b in e["keys"]}
        return json.dumps(["dict", True, "mismatch", all("".join(b) in keys for b in e["list"])])
    bs = e["list"] if e["given"] else e["keys"]
    flat = "".join("".join(b) for b in bs)
    return json.dumps([e["form"], e["given"], e["plan"]["status"], "Y" in flat, len(bs) != len({"".join(b) for b in bs}),
                       any(all(c == "Z" for c in b) for b in bs), min(len(bs), 2)])


def nll_class(e):
    bs = ["".join(r["b"]) for r in e["rows"]]
    rows = [(b, r["s"]) for b, r in zip(bs, e["rows"])]
    return json.dumps([e["given"], min(len(e["plan"]["groups"]), 3), any("Y" in b for b in bs),
                       any(set(b) == {"Z"} for b in bs) and any(set(b) != {"Z"} for b in bs), len(rows) != len(set(rows))])


# ---------------------------------------------------------------------------------------------------------
# judging
class Ctx:
    def __init__(self, chk, lib, rng, tier):
        self.chk, self.lib, self.rng, self.tier = chk, lib, rng, tier
        self.types = {}            # call path -> {type name: count}
        self.unjudged = {}
        self.corrupt = None        # negative controls: name of the corruption applied to the expectation

    def rtype(self, path, o):
        self.types.setdefault(path, {})
        self.types[path][o.typename] = self.types[path].get(o.typename, 0) + 1


def tensor_list(t):
    return t.tolist() if isinstance(t, torch.Tensor) else {k: v.tolist() for k, v in t.items()}


def check_type(cx, path, key, o, detail):
    cx.rtype(path, o)
    cx.chk.evaluations += 1
    if o.exc is None and not o.is_plain_real:
        cx.chk.violation(key, dict(detail, returned=o.typename, value=repr(o.value)[:80],
                                   expected="a plain real number of type float"))
        return False
    return True


def check_value(cx, key, o, want, detail):
    """want: me.Value.  Returns True iff judged and equal."""
    chk = cx.chk
    chk.evaluations += 1
    if o.exc is not None:
        chk.violation(key + ":raises", dict(detail, raised=repr(o.exc)[:300], expected=mpmath.nstr(want.value, 17)))
        return False
    if not want.judged:
        cx.unjudged[want.why] = cx.unjudged.get(want.why, 0) + 1
        return None
    got = o.number()
    if not math.isfinite(got) or abs(mpmath.mpf(got) - want.value) > want.tol:
        chk.violation(key, dict(detail, got=got, expected=mpmath.nstr(want.value, 17), tolerance=mpmath.nstr(want.tol, 5)))
        return False
    return True


def state_detail(name, pt):
    return dict(state=dict(type=name, point=pt))


def fid_tol_mixed(ex, F):
    """the library takes square roots of eigenvalues that are exactly zero (rank-deficient products) and come out of
    eigvals as +-N u: each contributes sqrt(N u) ~ 1e-8.  c bounds the error of tr sqrt(.)"""
    N = ex.N
    c = 4 * N * math.sqrt(N * 2.3e-16)
    return ex.eps * (2 * mpmath.sqrt(F) + F) * 2 + 1e-9 * F + 2 * mpmath.sqrt(F) * c + c * c


def gram_of(lib, n, rng, k):
    """a PSD complex-Hermitian target with imaginary off-diagonals: Gram matrix of k Gaussian-integer vectors"""
    vecs = [rng.choice(lib.fid[n])["t"] for _ in range(k)]
    return me.gram_from_gauss(n, vecs), vecs


# ---- fidelity -----------------------------------------------------------------------------------------
def do_fidelity(cx, name, st, ex, pt, idx):
    chk, lib, rng = cx.chk, cx.lib, cx.rng
    n = ex.n
    det0 = state_detail(name, pt)
    sp = st.generate_hilbert_space() if idx % 2 else None
    kw = dict(space=sp) if sp is not None else {}
    mixed = ex.kind == "mixed"

    def one(target, fam, want, extra=None):
        det = dict(det0, fn="fidelity", target=target.what, family=fam, target_tensor=target.tensor.tolist(),
                   space="explicit" if sp is not None else None, **(extra or {}))
        o = mb.call(ts.fidelity, st, target.tensor, **kw)
        check_type(cx, "fidelity:%s" % name, "fidelity:%s:returns-%s" % (name, o.typename), o, det)
        ok = check_value(cx, "fidelity:%s:%s:value" % (name, fam), o, want, det)
        if o.exc is None:
            chk.evaluations += 1
            g = o.number()
            if not (g >= -1e-12 and g <= 1 + float(want.tol) + 1e-9):
                chk.violation("fidelity:%s:range" % name, dict(det, got=g))
        chk.nontriv("fidelity:%s:%s:n%d" % (name, fam, n))
        return o, ok

    own = mb.own_target(ex)
    F1 = mpmath.mpf(1)
    if cx.corrupt == "fid-no-Z":
        F1 = ex.norm
    one(own, "own-state", me.Value(F1, fid_tol_mixed(ex, 1) if mixed else ex.eps * 3 + 1e-9))
    for e in [rng.choice(lib.fid[n]) for _ in range(2)]:
        tv = me.pure_from_gauss(n, e["t"])
        ph = mpmath.mpc(0, 1) ** e["k"]
        tk = me.Exact("pure", n, v=[ph * x for x in tv.v], norm=tv.norm, eps=0)
        if not mixed:
            want = me.fid_pure(ex, tk)
            if cx.corrupt == "fid-no-Z":
                want = me.Value(want.value * ex.norm, want.tol)
            o, ok = one(mb.Target(tk, "gauss"), "pure-target", want, dict(t=e["t"], k=e["k"]))
            # global phase of the target: i^k (spec) and an arbitrary angle; exchange of the arguments is covered by
            # the expected value itself (|<t|psi>|^2 is symmetric)
            o0 = mb.call(ts.fidelity, st, mb.Target(tv, "gauss").tensor, **kw)
            th = rng.uniform(0, 2 * math.pi)
            tth = me.Exact("pure", n, v=[mpmath.mpc(math.cos(th), math.sin(th)) * x for x in tv.v], norm=tv.norm, eps=0)
            o1 = mb.call(ts.fidelity, st, mb.Target(tth, "gauss").tensor, **kw)
            chk.evaluations += 2
            for oo, what in ((o, "i^%d" % e["k"]), (o1, "exp(i %.6f)" % th)):
                if oo.exc is None and o0.exc is None and abs(oo.number() - o0.number()) > 1e-12:
                    chk.violation("fidelity:%s:global-phase" % name, dict(det0, t=e["t"], phase=what, got=oo.number(), without=o0.number()))
        else:
            tau = me.gram_from_gauss(n, [e["t"]])
            F = me.fid_mixed_closed(ex, tau, "pure")
            if cx.corrupt == "fid-no-Z":
                F = F * ex.norm
            one(mb.Target(tau, "gauss-pure"), "pure-target", me.Value(F, fid_tol_mixed(ex, F)), dict(vecs=[e["t"]]))
    if mixed:
        rank1 = all(all(x == 0 for x in row) for row in pt["u"])
        if rank1 and lib.mix.get(n, {}).get("rank1"):
            e = rng.choice(lib.mix[n]["rank1"])
            tau = me.gram_from_gauss(n, e["vecs"])
            F = me.fid_mixed_closed(ex, tau, "rank1")
            one(mb.Target(tau, "gram"), "rank-one-model", me.Value(F, fid_tol_mixed(ex, F)), dict(vecs=e["vecs"]))
        if n == 1 and lib.mix.get(1, {}).get("qubit"):
            e = rng.choice(lib.mix[1]["qubit"])
            tau = me.gram_from_gauss(1, e["vecs"])
            F = me.fid_mixed_closed(ex, tau, "qubit")
            one(mb.Target(tau, "gram"), "one-qubit", me.Value(F, fid_tol_mixed(ex, F)), dict(vecs=e["vecs"]))
            # a target that is ALMOST pure (purity 1 - O(1e-6)): one vector weighted 2^18 times the other.  Nothing
            # is special about it: the same closed form, the same accuracy
            K = 512
            near = [[[K * c[0], K * c[1]] for c in e["vecs"][0]]] + [list(v) for v in e["vecs"][1:2]]
            if len(near) == 2:
                tau = me.gram_from_gauss(1, near)
                F = me.fid_mixed_closed(ex, tau, "qubit")
                one(mb.Target(tau, "gram"), "one-qubit:nearly-pure", me.Value(F, fid_tol_mixed(ex, F)), dict(vecs=near))
        if n >= 2 and idx % 2 == 1:
            # AUXILIARY: the same kind of almost pure target for more qubits, against the dense oracle
            v1, v2 = rng.choice(lib.fid[n])["t"], rng.choice(lib.fid[n])["t"]
            near = [[[512 * c[0], 512 * c[1]] for c in v1], list(v2)]
            tau = me.gram_from_gauss(n, near)
            F = mpmath.mpf(mb.uhlmann_dense(ex, tau))
            one(mb.Target(tau, "gram"), "nearly-pure[auxiliary-dense-oracle]", me.Value(F, fid_tol_mixed(ex, F) * 2 + 1e-7), dict(vecs=near))
        if cx.tier == "thorough" or n >= 2 and idx % 3 == 0:
            # AUXILIARY: general PSD target against an independent dense eigh formula
            tau, vecs = gram_of(lib, n, rng, rng.randint(2, ex.N))
            F = mpmath.mpf(mb.uhlmann_dense(ex, tau))
            one(mb.Target(tau, "gram"), "general[auxiliary-dense-oracle]", me.Value(F, fid_tol_mixed(ex, F) * 2 + 1e-7), dict(vecs=vecs))


# ---- KL -----------------------------------------------------------------------------------------------
def pick_target(cx, ex, idx):
    lib, rng, n = cx.lib, cx.rng, ex.n
    if idx % 2 == 0:
        return mb.own_target(ex), None
    if ex.kind == "pure":
        e = rng.choice(lib.fid[n])
        ph = mpmath.mpc(0, 1) ** e["k"]
        tv = me.pure_from_gauss(n, e["t"])
        return mb.Target(me.Exact("pure", n, v=[ph * x for x in tv.v], norm=tv.norm, eps=0), "gauss"), dict(t=e["t"], k=e["k"])
    tau, vecs = gram_of(lib, n, rng, rng.randint(1, ex.N + 1))
    return mb.Target(tau, "gram"), dict(vecs=vecs)


def bases_arg(list_, style):
    strs = ["".join(b) for b in list_]
    return np.array(strs) if style == 1 else strs


def do_kl(cx, name, st, ex, pt, case, idx):
    chk, lib, rng = cx.chk, cx.lib, cx.rng
    n = ex.n
    U = lib.U[n]
    mixed = ex.kind == "mixed"
    target, tdesc = pick_target(cx, ex, idx)
    plan = copy.deepcopy(case["plan"])
    if cx.corrupt == "plan-div":
        plan["div"] += 1
    if cx.corrupt == "unitary-transposed":
        U = dict(U)
        for b, u in list(U.items()):
            v = copy.copy(u)
            v.rows = [[(w, u.rows[w][k][1]) for w in range(len(u.rows)) for k in range(len(u.rows[w])) if u.rows[w][k][0] == s]
                      for s in range(len(u.rows))]
            U[b] = v
    form, given = case["form"], case["given"]
    style = idx % 3 if form == "tensor" else 0
    if form == "dict":
        arg = {"".join(b): target.rotated(lib.U[n]["".join(b)]) for b in case["keys"]}
    else:
        arg = target.tensor
    kw = {}
    if given:
        kw["bases"] = bases_arg(case["list"], style)
    if idx % 2:
        kw["space"] = st.generate_hilbert_space()
    det = dict(state_detail(name, pt), fn="KL", form=form, bases=["".join(b) for b in case["list"]] if given else None,
               keys=["".join(b) for b in case["keys"]], target=target.what, target_desc=tdesc,
               target_tensor=tensor_list(arg), plan=plan, space="explicit" if "space" in kw else None)
    o = mb.call(ts.KL, st, arg, **kw)
    path = "KL:%s:%s:%s" % (name, form, "bases" if given else "bases=None")
    chk.nontriv("KL:%s:n%d:%s" % (name, n, kl_class(case)))
    if plan["status"] == "mismatch":
        # keys differ from the requested bases: the library may refuse; if it answers, the answer must be the mean
        # over the requested bases (possible only when every requested basis has a key)
        cx.rtype(path + ":keys-mismatch", o)
        chk.evaluations += 1
        if o.exc is None:
            keys = {"".join(b) for b in case["keys"]}
            if all("".join(b) in keys for b in case["list"]):
                p2 = dict(terms=[dict(basis=b, src="dict") for b in case["list"]], div=len(case["list"]))
                check_value(cx, "KL:%s:dict:keys-mismatch:value" % name, o, me.kl_by_plan(ex, target.ex, p2, U), det)
            else:
                chk.violation("KL:%s:dict:keys-mismatch:silent" % name, dict(det, got=o.number()))
        return
    check_type(cx, path, "KL:%s:%s:returns-%s" % (name, "bases" if given else "bases=None", o.typename), o, det)
    if cx.corrupt == "kl-target-both":
        want = me.kl_by_plan(target.ex, target.ex, plan, U)
        want.tol = mpmath.mpf("1e-9")
    else:
        want = me.kl_by_plan(ex, target.ex, plan, U)
    key = "KL:%s:%s:%s:value" % (name, form, "bases" if given else "bases=None")
    if o.exc is None and want.judged and mixed and abs(mpmath.mpf(o.number()) - want.value) > want.tol and cx.corrupt is None:
        # attribute the two mixed-state defects known from the design review before reporting generically
        if form == "tensor" and given:
            alt = me.kl_by_plan(ex, target.transposed(), plan, U)
            if abs(mpmath.mpf(o.number()) - alt.value) <= alt.tol:
                chk.evaluations += 1
                chk.violation("KL:mixed:explicit-rho-transposed",
                              dict(det, got=o.number(), expected=mpmath.nstr(want.value, 17),
                                   value_for_transposed_target=mpmath.nstr(alt.value, 17)))
                return
        if form == "tensor" and not given:
            tn = [[abs(c / target.ex.norm) ** 2 for c in row] for row in target.ex.m]
            q = [ex.m[j][j].real / ex.norm for j in range(ex.N)]
            alt = sum(t * (mpmath.log(t) - mpmath.log(q[j])) for row in tn for j, t in enumerate(row) if t > 0)
            if abs(mpmath.mpf(o.number()) - alt) <= 1e-8 * (1 + abs(alt)):
                chk.evaluations += 1
                chk.violation("KL:mixed:bases-none:abs-squared-of-matrix",
                              dict(det, got=o.number(), expected=mpmath.nstr(want.value, 17),
                                   note="value equals sum_ij |tau_ij|^2 (ln|tau_ij|^2 - ln rho_jj): the target matrix is "
                                        "treated like a wavefunction"))
                return
    ok = check_value(cx, key, o, want, det)
    if o.exc is None and want.judged:
        chk.evaluations += 1
        if o.number() < -1e-12 - float(want.tol) and ok:
            chk.violation("KL:%s:negative" % name, dict(det, got=o.number()))
        if target.what == "own-state" and ok:
            chk.nontriv("KL:%s:own-state-zero:%s" % (name, "Y" if "Y" in json.dumps(case["list"] + case["keys"]) else "noY"))
    return ok


# ---- NLL ----------------------------------------------------------------------------------------------
def do_nll(cx, name, st, ex, pt, case, idx):
    chk, lib = cx.chk, cx.lib
    n = ex.n
    U = lib.U[n]
    rows = case["rows"]
    plan = copy.deepcopy(case["plan"])
    if cx.corrupt == "plan-div":
        plan["div"] += 1
    samples = mb.sample_tensor(n, rows)
    kw = {}
    if case["given"]:
        kw["sample_bases"] = mb.bases_array(rows)
    if idx % 2:
        kw["space"] = st.generate_hilbert_space()
    det = dict(state_detail(name, pt), fn="NLL", rows=[dict(b="".join(r["b"]), s=r["s"]) for r in rows],
               sample_bases="given" if case["given"] else None, plan=plan, space="explicit" if "space" in kw else None)
    o = mb.call(ts.NLL, st, samples, **kw)
    path = "NLL:%s:%s" % (name, "sample_bases" if case["given"] else "sample_bases=None")
    cx.rtype(path, o)
    chk.evaluations += 1
    chk.nontriv("NLL:%s:n%d:%s" % (name, n, nll_class(case)))
    if o.exc is None and not o.is_plain_real:
        if case["given"] and isinstance(o.value, torch.Tensor):
            chk.violation("NLL:bases-path:returns-tensor", dict(det, returned=o.typename, value=repr(o.value)))
        else:
            chk.violation("NLL:%s:returns-%s" % (name, o.typename), dict(det, returned=o.typename))
    want = me.nll_by_plan(ex, rows, plan, U)
    return check_value(cx, "NLL:%s:%s:value" % (name, "sample_bases" if case["given"] else "sample_bases=None"), o, want, det)


# ---- deprecated keyword aliases -------------------------------------------------------------------------
def do_calls(cx, name, st, ex, pt):
    chk = cx.chk
    target = mb.own_target(ex).tensor
    for fn in (ts.fidelity, ts.KL):
        base = mb.call(fn, st, target)
        for e in cx.lib.calls:
            args = (st, target) if e["pos"] else (st,)
            kw = {k: target for k in e["kw"]}
            o = mb.call(fn, *args, **kw)
            chk.evaluations += 1
            chk.nontriv("call:%s:%s:%s" % (fn.__name__, e["pos"], ",".join(sorted(e["kw"]))))
            det = dict(state_detail(name, pt), fn=fn.__name__, positional=e["pos"], keywords=sorted(e["kw"]), expected=e["out"])
            if e["out"]["result"] == "TypeError":
                if not isinstance(o.exc, TypeError):
                    chk.violation("%s:call-form:no-TypeError" % fn.__name__, dict(det, got=o.typename))
                continue
            if o.exc is not None or base.exc is not None:
                chk.violation("%s:call-form:raises" % fn.__name__, dict(det, raised=repr(o.exc or base.exc)[:200]))
                continue
            if o.number() != base.number() or type(o.value) is not type(base.value):
                chk.violation("%s:call-form:value" % fn.__name__, dict(det, got=o.number(), positional_value=base.number()))
            warned = any("deprecated" in w for w in o.warns)
            if warned != e["out"]["warns"]:
                chk.violation("%s:call-form:warning" % fn.__name__, dict(det, warned=warned))


# ---- one state ------------------------------------------------------------------------------------------
def positive_without_unitaries(cx, name, st, ex, pt):
    """a PositiveWaveFunction has no unitary_dict of its own: record what KL / NLL do with bases, then give it the
    default dictionary so that the values can still be bound"""
    chk = cx.chk
    n = ex.n
    b = "X" + "Z" * (n - 1)
    t = mb.own_target(ex).tensor
    o = mb.call(ts.KL, st, t, bases=[b])
    chk.evaluations += 1
    if isinstance(o.exc, AttributeError):
        chk.violation("KL:positive:bases:no-unitary_dict", dict(state_detail(name, pt), fn="KL", bases=[b], raised=repr(o.exc)))
    o = mb.call(ts.NLL, st, torch.zeros(1, n, dtype=torch.double), sample_bases=np.array([list(b)]))
    chk.evaluations += 1
    if isinstance(o.exc, AttributeError):
        chk.violation("NLL:positive:rotated-bases:no-unitary_dict",
                      dict(state_detail(name, pt), fn="NLL", sample_bases=[b], raised=repr(o.exc)))
    mb.ensure_unitaries(st)


def do_state(cx, name, st, ex, pt, idx, nkl, nnll):
    if name == "positive":
        positive_without_unitaries(cx, name, st, ex, pt)
    do_fidelity(cx, name, st, ex, pt, idx)
    for j, case in enumerate(cx.lib.take(cx.lib.kl, ex.n, nkl, cx.rng)):
        do_kl(cx, name, st, ex, pt, case, idx + j)
    for j, case in enumerate(cx.lib.take(cx.lib.nll, ex.n, nnll, cx.rng)):
        do_nll(cx, name, st, ex, pt, case, idx + j)
    if idx % 7 == 0:
        do_calls(cx, name, st, ex, pt)


# ---- MetricEvaluator path -------------------------------------------------------------------------------
def evaluator_path(cx, seed):
    """metrics={"F","KL","NLL"} with their keyword arguments through one tiny real fit per state type: the recorded
    values must be the values of the direct calls at the same parameters (those are bound to the spec above) and
    plain floats"""
    from qucumber.callbacks import MetricEvaluator, CallbackBase
    from qucumber.nn_states import PositiveWaveFunction, ComplexWaveFunction, DensityMatrix
    chk = cx.chk
    torch.manual_seed(seed)
    nv = 2
    sp = lattice.space(nv)
    data = torch.tensor([[0, 0], [0, 1], [1, 1], [1, 0], [0, 0], [1, 1]], dtype=torch.double)
    bases = np.array([list("ZZ"), list("XZ"), list("ZY"), list("ZZ"), list("XY"), list("XZ")])
    tvec = torch.tensor([[0.5, 0.5, 0.5, 0.0], [0.0, 0.0, 0.5, 0.5]], dtype=torch.double)          # normalised, non-real
    trho = torch.stack([torch.ger(tvec[0], tvec[0]) + torch.ger(tvec[1], tvec[1]),
                        torch.ger(tvec[1], tvec[0]) - torch.ger(tvec[0], tvec[1])])                  # |t><t|
    trho = (trho + torch.stack([torch.eye(4, dtype=torch.double), torch.zeros(4, 4, dtype=torch.double)]) / 4) / 2

    class Probe(CallbackBase):
        def __init__(self, ev, kw):
            self.ev, self.kw, self.rows = ev, kw, []

        def on_epoch_end(self, nn_state, epoch):
            direct = {k: mb.call(f, nn_state, **self.kw) for k, f in self.ev.metrics.items()}
            self.rows.append((epoch, dict(self.ev.last), direct))

    for name, mk in (("positive", lambda: PositiveWaveFunction(nv, 2, gpu=False)),
                     ("complex", lambda: ComplexWaveFunction(nv, 2, gpu=False)),
                     ("density", lambda: DensityMatrix(nv, 2, 2, gpu=False))):
        st = mk()
        withb = name != "positive"
        kw = dict(target=trho if name == "density" else tvec, bases=["XZ", "ZY", "ZZ"] if withb else None, samples=data,
                  space=sp, sample_bases=bases if withb else None)
        # registration order is not alphabetical order: every value must sit under the name of its own function
        reg = {"positive": ("NLL", "F", "KL"), "complex": ("KL", "NLL", "F"), "density": ("F", "NLL", "KL")}[name]
        fns = {"F": ts.fidelity, "KL": ts.KL, "NLL": ts.NLL}
        ev = MetricEvaluator(1, {m: fns[m] for m in reg}, **kw)
        probe = Probe(ev, kw)
        fit_kw = dict(input_bases=bases) if withb else {}
        st.fit(data, epochs=2, pos_batch_size=3, neg_batch_size=3, k=1, lr=0.05, callbacks=[ev, probe], **fit_kw)
        if len(probe.rows) != 2:
            raise common.MachineryError("MetricEvaluator run recorded %d epochs" % len(probe.rows))
        for epoch, last, direct in probe.rows:
            for m in ("F", "KL", "NLL"):
                o = mb.Outcome(value=last[m])
                chk.evaluations += 1
                chk.nontriv("evaluator:%s:%s" % (name, m))
                det = dict(fn=m, via="MetricEvaluator", state=name, epoch=epoch, bases=kw["bases"],
                           sample_bases="given" if withb else None)
                cx.rtype("MetricEvaluator:%s:%s" % (m, name), o)
                if direct[m].exc is not None or o.number() != direct[m].number():
                    chk.violation("MetricEvaluator:%s:%s:value" % (m, name), dict(det, got=o.number(), direct=direct[m].typename))
                if not o.is_plain_real:
                    if m == "NLL" and withb and isinstance(o.value, torch.Tensor):
                        chk.violation("NLL:bases-path:returns-tensor", dict(det, returned=o.typename))
                    else:
                        chk.violation("MetricEvaluator:%s:returns-%s" % (m, o.typename), det)


# ---------------------------------------------------------------------------------------------------------
def states_of(rex, pex):
    out = []
    for e in rex:
        out += mb.wave_states(e)
    for e in pex:
        out += mb.density_states(e)
    return out


def negative_controls(chk, lib, states, tier, seed):
    """corrupt the expectation (an exported plan, an exported unitary, the definition) on cases that were accepted:
    the comparator must reject"""
    def rerun(corrupt, fn, want_key):
        ctl = common.Check(PID, tier, seed)
        ctl.findings = {"known": []}
        cx = Ctx(ctl, lib, random.Random(seed + 5), tier)
        cx.corrupt = corrupt
        lib.cursor = {}
        fn(cx)
        return any(want_key(k) for k, _ in ctl.violations)

    waves = [s for s in states if s[0] == "complex" and s[2].n >= 2][:6]
    dens = [s for s in states if s[0] == "density" and s[2].n >= 2][:4]

    def kl_all(cx):
        for i, (name, st, ex, pt) in enumerate(waves):
            for j, case in enumerate(cx.lib.take(cx.lib.kl, ex.n, 8, cx.rng)):
                do_kl(cx, name, st, ex, pt, case, 2 * (i + j) + 1)

    def nll_all(cx):
        for i, (name, st, ex, pt) in enumerate(waves + dens):
            for j, case in enumerate(cx.lib.take(cx.lib.nll, ex.n, 8, cx.rng)):
                do_nll(cx, name, st, ex, pt, case, i + j)

    def fid_all(cx):
        for i, (name, st, ex, pt) in enumerate(waves + dens):
            do_fidelity(cx, name, st, ex, pt, i)

    chk.control(rerun("plan-div", kl_all, lambda k: k.startswith("KL:") and k.endswith(":value")),
                "KL plan with divisor + 1 compared equal")
    chk.control(rerun("plan-div", nll_all, lambda k: k.startswith("NLL:") and k.endswith(":value")),
                "NLL plan with divisor + 1 compared equal")
    chk.control(rerun("unitary-transposed", kl_all, lambda k: k.startswith("KL:") and k.endswith(":value")),
                "KL evaluated with transposed dense unitaries compared equal")
    chk.control(rerun("kl-target-both", kl_all, lambda k: k.startswith("KL:") and k.endswith(":value")),
                "KL of the target against itself compared equal")
    chk.control(rerun("fid-no-Z", fid_all, lambda k: k.startswith("fidelity:") and k.endswith(":value")),
                "fidelity without the division by Z compared equal")


def finish(chk):
    """common.Check reports the first 20 violations: put one of every distinct key first"""
    seen, first, rest = set(), [], []
    for v in chk.violations:
        (rest if v[0] in seen else first).append(v)
        seen.add(v[0])
    chk.violations = first + rest
    chk.extra["violation_keys"] = {k: sum(1 for x, _ in chk.violations if x == k) for k in sorted(seen)}
    for fname, arg in sorted(set(MB.MUTATIONS if "MB" in globals() else __import__("metrics_bind").MUTATIONS)):
        chk.violation("metric:modified-its-argument:%s:%s" % (fname, arg),
                      dict(why="the caller's tensor was changed in place by the metric; a later metric on the same object "
                               "(e.g. inside MetricEvaluator with a shared target=) sees a different state",
                           occurrences=sum(1 for m in __import__("metrics_bind").MUTATIONS if m == (fname, arg))))
    return chk.finish()


def run(tier, seed):
    chk = common.Check(PID, tier, seed)
    rng = random.Random(seed)
    big = tier == "thorough"
    chk.rule = ("Metrics.tla: every case of fid / born / kl / nll / mixfid / call over seeded pools of Gaussian-integer "
                "vectors, all bases of {X,Y,Z}^n for n <= 2 and sampled ones for n = 3 (4 thorough), every bases list / dict "
                "key list / row sequence within the bounds; binding: lattice points (all parameters non-zero, nv <= 3 quick / "
                "4 thorough) of RBM.tla / PurifRBM.tla x {positive, complex, density} x cases drawn round-robin over the classes "
                "(form, bases given, keys match, Y present, duplicates, all-Z mixed with rotated, number of groups); "
                "non-trivial = distinct (metric, state type, class) combinations")
    defs, cfg = config(tier, seed)
    with concurrent.futures.ThreadPoolExecutor(max_workers=3) as pool:
        f_main = pool.submit(run_metrics, defs, ["fid", "born", "kl", "nll", "mixfid", "call"])
        f_lat = pool.submit(lattice_runs, tier, seed)
        f_fault = pool.submit(fault_runs, defs)
        res = f_main.result()
        r1, r2 = f_lat.result()
        faults = f_fault.result()
    chk.add_tlc(res, "Metrics.tla all kinds, %d invariants" % len(INVARIANTS))
    chk.add_tlc(r1, "RBM.tla lattice points (exact psi)")
    chk.add_tlc(r2, "PurifRBM.tla lattice points (exact rho)")
    if res.violation:
        chk.violation("spec:" + str(res.violation), dict(tlc=res.raw[-3000:]))
        return finish(chk)
    for fault, inv, what, r in faults:
        chk.add_tlc(r, "Metrics.tla planted fault %s -> %s" % (fault, inv))
        chk.control(r.violation == inv, "planted fault '%s' (%s) not caught by %s" % (fault, what, inv))
    lib = Library(res.exports)
    for n in cfg["ns"]:
        need = (3 ** n if n <= 2 else len(cfg["bases"][n]))
        if len(lib.U.get(n, {})) != need or not lib.kl.get(n) or not lib.nll.get(n) or not lib.fid.get(n):
            raise common.MachineryError("Metrics.tla export incomplete for n = %d" % n)
    chk.extra["spec_cases"] = {k: sum(1 for e in res.exports if e["kind"] == k) for k in ("fid", "born", "kl", "nll", "mixfid", "call")}

    rex, pex = r1.exports, r2.exports
    if not big:
        rex = [e for e in rex if e["idx"] > 0] + rng.sample([e for e in rex if e["idx"] == 0], 6)
        pex = [e for e in pex if e["idx"] > 0] + rng.sample([e for e in pex if e["idx"] == 0], 6)
    states = states_of(rex, pex)
    cx = Ctx(chk, lib, rng, tier)
    nkl, nnll = (10, 6) if big else (7, 4)
    for idx, (name, st, ex, pt) in enumerate(states):
        before = len(chk.violations)
        do_state(cx, name, st, ex, pt, idx, nkl, nnll)
        if idx % 37 == 5 and len(chk.violations) == before:
            chk.sample(dict(state=name, point=pt, note="fidelity/KL/NLL agreed with the exactly evaluated definitions"))
    evaluator_path(cx, seed)
    negative_controls(chk, lib, states, tier, seed)
    # code -> spec: NLL is the mean over the rows of each row's own term, KL the mean over the requested bases (a basis
    # listed twice counts twice) - every number from a public call, the sums in TLC (GroupMean.tla / TraceGroupMean.tla)
    import groupmean_trace
    groupmean_trace.phase(chk, tier, random.Random(seed + 79), {"nll", "kl"})
    chk.extra["states_replayed"] = len(states)
    chk.extra["return_types"] = cx.types
    chk.extra["unjudged"] = cx.unjudged
    chk.extra["classes_available"] = {str(n): dict(kl=len(lib.kl.get(n, {})), nll=len(lib.nll.get(n, {}))) for n in cfg["ns"]}
    chk.assumptions += [
        "model parameters on the lattice t*ln B (B = 2, 3; all non-zero; phase lattice of C02 for the density matrix); the "
        "continuum in between is not decided",
        "tolerance: relative 1e-9 on the value plus the first-order propagation of a relative error 1e-9 + (nh+na)*2.1e-9 "
        "(torch softplus threshold) of every amplitude / matrix entry through the rotation (cancellation in a rotated "
        "amplitude amplifies it); 1.5e-7 at lattice points where a purification factor 1 + e^z vanishes exactly",
        "probabilities below 1e-15 are clamped by torch's probs_to_logits: such cases are counted as unjudged, not judged",
        "Uhlmann fidelity: closed forms decided by TLC (target = model, pure target, rank-one model, one qubit); general PSD "
        "targets only against an AUXILIARY dense eigh formula; absolute accuracy 4 N sqrt(N u) because the library takes "
        "square roots of numerically-zero eigenvalues",
        "targets are normalised (Gaussian-integer vectors / Gram matrices divided by their norm, the model's own state); "
        "bases lists are non-empty; dict keys that differ from the bases may be refused",
        "identities of NLLProduct hold modulo the primes 46327, 46307, 46279; all other TLC arithmetic is exact integers"]
    return finish(chk)


def replay(path):
    """./check C10 --replay <file>: run the recorded call against the working tree and compare with the recorded
    expectation"""
    with open(path) as fh:
        blob = json.load(fh)
    d = blob["detail"]
    if "state" not in d or "point" not in d.get("state", {}) or d.get("fn") not in ("fidelity", "KL", "NLL"):
        print("C10 replay: %s is not a recorded library call; run ./check C10" % blob["key"])
        return 2
    typ, pt = d["state"]["type"], d["state"]["point"]
    st = {"positive": lattice.positive_state, "complex": lattice.complex_state, "density": lattice.density_state}[typ](pt)
    kw = {}
    if d.get("space") == "explicit":
        kw["space"] = st.generate_hilbert_space()
    if d["fn"] == "NLL":
        rows = [dict(b=list(r["b"]), s=r["s"]) for r in d["rows"]]
        if d.get("sample_bases"):
            kw["sample_bases"] = mb.bases_array(rows)
        if typ == "positive":
            mb.ensure_unitaries(st)
        o = mb.call(ts.NLL, st, mb.sample_tensor(pt["nv"], rows), **kw)
    else:
        if "target_tensor" not in d:
            print("C10 replay: no recorded target; run ./check C10")
            return 2
        tt = d["target_tensor"]
        arg = {k: torch.tensor(v, dtype=torch.double) for k, v in tt.items()} if isinstance(tt, dict) else torch.tensor(tt, dtype=torch.double)
        if d["fn"] == "KL" and d.get("bases") is not None:
            kw["bases"] = d["bases"]
        if typ == "positive" and "no-unitary_dict" not in blob["key"]:
            mb.ensure_unitaries(st)
        o = mb.call(ts.KL if d["fn"] == "KL" else ts.fidelity, st, arg, **kw)
    print("%s on %s at %s" % (d["fn"], typ, json.dumps(pt)))
    print("  returned: %s %r" % (o.typename, o.exc if o.exc is not None else o.value))
    print("  expected: %s (tolerance %s), a plain float" % (d.get("expected"), d.get("tolerance")))
    bad = o.exc is not None or not o.is_plain_real
    if o.exc is None and d.get("expected") is not None and d.get("tolerance") is not None:
        try:
            bad = bad or abs(o.number() - float(d["expected"])) > float(d["tolerance"])
        except (TypeError, ValueError):
            pass
    print("C10 replay: %s" % ("VIOLATION reproduced" if bad else "not reproduced on this tree"))
    return 1 if bad else 0
