"""Extension - the argument-dispatch decorators of qucumber/utils/__init__.py.

spec/Dispatch.tla holds two machines over one call each:

  U  auto_unsqueeze_args: the wrapper walks its index list (Unsqueeze / Keep / Fail), runs the
     body (Invoke) and squeezes the result in place iff something was unsqueezed (Squeeze /
     Return); tensors are objects on a heap, so identity, views and the caller's tensors are
     part of the state;
  K  deprecated_kwarg: the wrapper walks its alias table (Skip / Clash / Rename with one warning),
     then python binds the call and the body runs (Invoke).

TLC explores every case inside stated bounds, checks the user-level properties as invariants
(modulo named deviations) and exports every terminal behaviour.  Each exported case is replayed
(spec -> code) into synthetic probes decorated with the REAL decorators and into the REAL
decorated entry points of the package, found by introspection (functions whose
closure holds a decorator instance).  Randomly drawn calls through the real decorators are
recorded step by step (a tensor subclass reports dim() / unsqueeze() / squeeze_(); the body is
wrapped) and validated in batch by spec/TraceDispatch.tla (code -> spec).

Entry point: run(chk, tier, seed) - adds phases to an existing common.Check.
"""
import concurrent.futures as cf
import copy
import importlib
import inspect
import json
import os
import pkgutil
import random
import re
import shutil
import tempfile
import warnings

import common
import tlc

qucumber = common.import_qucumber()
import torch  # noqa: E402
from qucumber.utils import auto_unsqueeze_args, deprecated_kwarg  # noqa: E402

K = "ext:dispatch:"
WORKERS, HEAP = 8, "4g"
NT = [99]

U_INV = ["UTypeOK", "FailsBeforeBody", "FailKind", "InnerSeesRule", "InnerSeesBatch", "OneRowBatch", "LogRule",
         "PassThroughWhenBatched", "ResultShape", "SqueezeOnlyIfUnsqueezed", "NonTensorResult", "BodyRaises",
         "CallerUntouched", "CallerTouchedExactly"]
K_INV = ["KTypeOK", "Conservation", "WarnRule", "OneWarningPerAlias", "ClashRaisesBeforeBody", "ExcExact",
         "PassThrough", "RenamedArrives", "NoAliasReachesBody", "BodyKeywords"]

U_EXPORT = ('MC_Export == UDone => PrintT(ToJson([I |-> ucase.I, args |-> ucase.args, out |-> ucase.out, log |-> ulog, '
            'ran |-> ran, seen |-> seen, res |-> res, rs |-> IF res.k = "tensor" THEN heap[res.id].s ELSE <<>>, '
            'sq |-> sq, exc |-> uexc, caller |-> [j \\in 1..N |-> heap[j].s], dev |-> UDev]))')
K_EXPORT = ('MC_Export == KDone => PrintT(ToJson([al |-> kcase.al, kw |-> kcase.kw, npos |-> kcase.npos, warn |-> kwarn, '
            'ran |-> kran, body |-> kbody, exc |-> kexc, stage |-> kstage, chainfree |-> ChainFree, devchain |-> DevChain]))')

IDLE_U = dict(c={"MaxArgs": 0, "SqueezeAlways": False}, d={"UListsOf(n)": "{}", "UKinds(n)": "{}", "UFresh": "{}"})
IDLE_K = dict(c={"KMaxPos": 0}, d={"KTables": "{}", "KNames": "{}", "KPosParams": "<<>>"})
K_POS = ["x", "t1", "t2"]
T_NAMES = ["a1", "a2", "a3", "a4", "t1", "t2", "t3", "o1", "o2"]       # keyword names of recorded K calls


# --------------------------------------------------------------------------------------------
# bounds

def u_bounds(tier):
    """defs of Part U.  Index lists are python indices, in every order and with repetitions."""
    if tier == "quick":
        return {"MaxArgs": 3,
                "UListsOf(n)": "IF n <= 2 THEN UNION {[1..k -> 0..2] : k \\in 0..2} "
                               "ELSE {<<>>, <<2>>, <<1, 2>>, <<2, 1>>, <<2, 2>>, <<0, 2>>, <<1, 1>>}",
                "UKinds(n)": "IF n <= 2 THEN {<<>>, <<2>>, <<1, 2>>, <<3, 2>>, <<1, 2, 2>>, NT} "
                             "ELSE {<<>>, <<2>>, <<1, 2>>, NT}",
                "UFresh": "{<<>>, <<1>>, <<2>>, <<1, 2>>, <<2, 1>>, <<1, 1>>, <<1, 2, 1>>}"}
    if tier == "tiny":          # for the controls: a corrupted specification fails on the smallest calls already
        return {"MaxArgs": 2, "UListsOf(n)": "{<<>>, <<0>>, <<0, 1>>}", "UKinds(n)": "{<<>>, <<2>>, <<1, 2>>}",
                "UFresh": "{<<2>>, <<1, 2>>}"}
    return {"MaxArgs": 4,
            "UListsOf(n)": "IF n <= 2 THEN UNION {[1..k -> 0..3] : k \\in 0..3} "
                           "ELSE UNION {[1..k -> 0..3] : k \\in 0..2} \\cup {<<1, 2, 3>>, <<3, 2, 1>>, <<3, 3, 3>>, <<0, 3, 0>>, "
                           "<<2, 2, 2>>, <<1, 2, 1>>, <<2, 1, 0>>, <<0, 1, 2>>}",
            "UKinds(n)": "IF n <= 2 THEN {<<>>, <<1>>, <<2>>, <<1, 2>>, <<3, 2>>, <<1, 1>>, <<1, 2, 2>>, <<2, 2, 2>>, NT} "
                         "ELSE IF n = 3 THEN {<<>>, <<2>>, <<1, 2>>, <<3, 2>>, <<1, 2, 2>>, NT} "
                         "ELSE {<<>>, <<2>>, <<1, 2>>, NT}",
            "UFresh": "{<<>>, <<1>>, <<2>>, <<1, 2>>, <<2, 1>>, <<1, 1>>, <<1, 2, 1>>, <<1, 1, 2>>, <<3, 1, 2>>}"}


def k_bounds(tier):
    if tier == "quick":
        return {"KMaxPos": 3, "KTables": 'TablesOver({"a1", "a2"}, {"t1", "t2", "a1", "a2"}, 2)',
                "KNames": '{"a1", "a2", "t1", "t2", "o1"}'}
    return {"KMaxPos": 3, "KTables": 'TablesOver({"a1", "a2", "a3"}, {"t1", "t2", "a1", "a2", "a3"}, 3)',
            "KNames": '{"a1", "a2", "a3", "t1", "t2", "o1"}'}


def _split(b, idle_other):
    c, d = dict(idle_other["c"]), dict(idle_other["d"])
    for k, v in b.items():
        (d if isinstance(v, str) else c)[k] = v
    return c, d


def tlc_u(b, export=True, invariants=U_INV, squeeze_always=False, timeout=900, workers=WORKERS):
    c, d = _split(b, IDLE_K)
    c["SqueezeAlways"] = squeeze_always
    return tlc.run("Dispatch", constants=c, defs=d, init="UInit", next="UNext",
                   invariants=list(invariants) + (["MC_Export"] if export else []),
                   extends_extra=["Json"], extra_text=U_EXPORT if export else "",
                   workers=workers, heap=HEAP, timeout=timeout)


def tlc_k(b, export=True, invariants=K_INV, timeout=900, workers=WORKERS):
    c, d = _split(b, IDLE_U)
    d["KPosParams"] = tlc.tla_value(K_POS)
    return tlc.run("Dispatch", constants=c, defs=d, init="KInit", next="KNext",
                   invariants=list(invariants) + (["MC_Export"] if export else []),
                   extends_extra=["Json"], extra_text=K_EXPORT if export else "",
                   workers=workers, heap=HEAP, timeout=timeout)


def tlc_both(ub, kb, timeout=900, workers=WORKERS):
    """parts U and K in one JVM (quick tier): the initial states of both machines, the union of their steps"""
    c, d = {}, {}
    for b in (ub, kb):
        for k, v in b.items():
            (d if isinstance(v, str) else c)[k] = v
    c["SqueezeAlways"] = False
    d["KPosParams"] = tlc.tla_value(K_POS)
    both = U_EXPORT.replace("MC_Export ==", "MC_ExportU ==") + "\n" + K_EXPORT.replace("MC_Export ==", "MC_ExportK ==")
    return tlc.run("Dispatch", constants=c, defs=d, init="BothInit", next="BothNext",
                   invariants=U_INV + K_INV + ["MC_ExportU", "MC_ExportK"], extends_extra=["Json"], extra_text=both,
                   workers=workers, heap=HEAP, timeout=timeout)


# --------------------------------------------------------------------------------------------
# helpers

OBSERVED = {}


def machinery(chk, msg):
    """A replay that cannot be driven: a machinery failure on a conforming implementation; on one that already
    disagrees with the specification the violations found so far are the report."""
    if not chk.disagreements:
        raise common.MachineryError(msg)
    OBSERVED["not driven: " + msg] = 1


def observe(what, value=None):
    """behaviour that is not judged (a deviation or its expected alternative): counted in the evidence"""
    key = what if value is None else "%s: %s" % (what, value)
    OBSERVED[key] = OBSERVED.get(key, 0) + 1


def control(chk, rejected, what):
    """On an implementation that already disagrees with the specification a corrupted expectation may
    coincide with the (wrong) behaviour: the control cannot be judged then."""
    if not rejected and chk.disagreements:
        return
    chk.control(rejected, what)


def sq0(s):
    s = list(s)
    return s[1:] if s and s[0] == 1 else s


def is_t(x):
    return isinstance(x, torch.Tensor)


def make_tensor(shape, salt=0):
    n = 1
    for d in shape:
        n *= d
    return (torch.arange(n, dtype=torch.double) * 0.25 + 0.5 + salt).reshape(tuple(shape))


def snapshot(args):
    return [(tuple(a.shape), a.stride(), a.clone().reshape(-1), a.data_ptr()) if is_t(a) else None for a in args]


def body_of(fn):
    """the undecorated function behind a decorated one (functools.wraps sets __wrapped__; the closure holds it as f)"""
    return getattr(fn, "__wrapped__", None) or closure_of(fn).get("f")


def wraps_ok(fn):
    """functools.wraps: name, qualified name, module, docstring of the wrapped function are kept"""
    w = closure_of(fn).get("f")
    miss = [a for a in ("__name__", "__qualname__", "__module__", "__doc__") if getattr(fn, a, None) != getattr(w, a, None)]
    if getattr(fn, "__wrapped__", None) is not w:
        miss.append("__wrapped__")
    return miss


def closure_of(fn):
    if not getattr(fn, "__closure__", None):
        return {}
    out = {}
    for name, cell in zip(fn.__code__.co_freevars, fn.__closure__):
        try:
            out[name] = cell.cell_contents
        except ValueError:
            pass
    return out


# --------------------------------------------------------------------------------------------
# spec -> code, Part U, probes

class Rec:
    def __init__(self):
        self.ran = 0
        self.args = self.kwargs = self.ret = self.body_exc = None
        self.seen = None
        self.ret_shape = None


def u_probe(I, out, rec):
    """A function decorated with the real auto_unsqueeze_args; records what it receives and returns
    what the case says."""
    def probe(*args, **kwargs):
        """probe docstring"""
        rec.ran += 1
        rec.args, rec.kwargs = args, kwargs
        rec.seen = [(tuple(a.shape), a.data_ptr()) if is_t(a) else None for a in args]
        if out["k"] == "raise":
            rec.body_exc = ValueError("raised by the probe")
            raise rec.body_exc
        if out["k"] == "nontensor":
            r = 1.5
        elif out["k"] == "fresh":
            r = make_tensor(out["s"], salt=7)
        else:
            r = args[out["p"]]
        rec.ret = r
        rec.ret_shape = tuple(r.shape) if is_t(r) else None
        rec.ret_vals = r.clone().reshape(-1) if is_t(r) else None
        return r
    return auto_unsqueeze_args(*I)(probe), probe


def replay_u_probe(c):
    """One exported case of Part U on a probe -> list of mismatch strings (empty = conforms)."""
    I, shapes, out = c["I"], c["args"], c["out"]
    n = len(shapes)
    args = [make_tensor(s, salt=j) if s != NT else [0.5 + j] for j, s in enumerate(shapes)]
    snap = snapshot(args)
    tag = object()
    rec = Rec()
    fn, probe = u_probe(I, out, rec)
    bad = []
    miss = wraps_ok(fn)
    if miss:
        bad.append("wraps: not preserved %s" % miss)
    exc = None
    result = None
    try:
        result = fn(*args, tag=tag)
    except Exception as ex:     # noqa: BLE001 - the outcome of the call is the observation
        exc = ex
    want_exc = c["exc"]
    # ---- did the body run, and on what
    if rec.ran != (1 if c["ran"] else 0):
        bad.append("body: ran %d time(s), specification %s" % (rec.ran, "once" if c["ran"] else "not at all"))
        return bad
    if not c["ran"]:
        # refused before the body (position missing / not a tensor): the exception type is the code's choice
        if exc is None:
            bad.append("refusal: no exception although the specification refuses the call before the body")
        else:
            observe("call refused before the body with", type(exc).__name__)
    else:
        if rec.kwargs != {"tag": tag} or rec.kwargs["tag"] is not tag:
            bad.append("keywords: the body did not receive the caller's keyword unchanged")
        if len(rec.args) != n:
            bad.append("positional: the body received %d arguments, the caller gave %d" % (len(rec.args), n))
            return bad
        if len(c["seen"]) != n:
            bad.append("body: ran, the specification has no record of what it receives")
            return bad
        for j in range(n):
            sp = c["seen"][j]
            got = rec.args[j]
            if sp["id"] == j + 1:                     # the caller's own object
                if got is not args[j]:
                    bad.append("seen[%d]: not the caller's object (specification: passed through)" % j)
                continue
            zero = (j + 1) in c["dev"]["zero"]
            if not is_t(got) or got is args[j]:
                bad.append("seen[%d]: argument not unsqueezed (caller shape %s, specification %s)" % (j, shapes[j], sp["s"]))
            elif list(rec.seen[j][0]) != sp["s"]:           # the shape when the body ran (a later squeeze_ may hit the view)
                if zero and list(rec.seen[j][0]) == [1, 1]:
                    observe("0-d listed argument reaches the body as (1, 1)")
                else:
                    bad.append("seen[%d]: shape %s, specification %s" % (j, list(rec.seen[j][0]), sp["s"]))
            elif rec.seen[j][1] != snap[j][3] or not torch.equal(got.reshape(-1), snap[j][2]):
                bad.append("seen[%d]: not a view of the caller's tensor" % j)
            elif zero:
                observe("0-d listed argument reaches the body 1-D")
        # ---- how the call ended
        if want_exc == "BodyError":
            if exc is None or exc is not rec.body_exc:
                bad.append("exception: the body's exception did not propagate unchanged (%r)" % (exc,))
        elif c["res"]["k"] == "nontensor":
            if want_exc == "":
                if exc is not None or result is not rec.ret:
                    bad.append("result: non-tensor result not passed through (%r)" % (exc,))
            elif exc is None and result is rec.ret:
                observe("non-tensor result of an unsqueezed call passed through")
            elif isinstance(exc, AttributeError):
                observe("non-tensor result of an unsqueezed call raises AttributeError after the body ran")
            else:
                bad.append("result: non-tensor result of an unsqueezed call: %r" % (exc,))
        else:
            if exc is not None:
                bad.append("exception: %r, specification: returns" % (exc,))
            elif not is_t(result):
                bad.append("result: %r is not a tensor" % (result,))
            else:
                if list(result.shape) != c["rs"]:
                    bad.append("result: shape %s, specification %s (body returned %s, squeezed=%s)"
                               % (list(result.shape), c["rs"], list(rec.ret_shape), c["sq"]))
                elif not torch.equal(result.reshape(-1), rec.ret_vals):
                    bad.append("result: values differ from what the body returned")
                if not c["sq"] and result is not rec.ret:
                    bad.append("result: passed-through call did not return the body's own object")
                if c["sq"]:
                    observe("squeezed result is", "the body's object" if result is rec.ret else "another object")
    # ---- the caller's tensors
    for j in range(n):
        if snap[j] is None:
            continue
        a = args[j]
        if a.data_ptr() != snap[j][3] or not torch.equal(a.reshape(-1), snap[j][2]):
            bad.append("caller[%d]: contents changed" % j)
        elif list(a.shape) == shapes[j]:
            if a.stride() != snap[j][1]:
                bad.append("caller[%d]: strides changed" % j)
            if (j + 1) in c["dev"]["alias"]:
                observe("caller's tensor returned by the body is NOT changed by the squeeze")
        elif (j + 1) in c["dev"]["alias"] and list(a.shape) == c["caller"][j]:
            observe("caller's tensor returned by the body loses its leading axis (in-place squeeze_)")
        else:
            bad.append("caller[%d]: shape %s -> %s" % (j, shapes[j], list(a.shape)))
    return bad


def u_key(c, how):
    ranks = "".join("N" if s == NT else str(len(s)) for s in c["args"])
    return "%su-%s:I=%s:ranks=%s:out=%s" % (K, how, ",".join(map(str, c["I"])) or "default", ranks, c["out"]["k"])


def replay_u(chk, cases, stats):
    bads = []
    for c in cases:
        bad = replay_u_probe(c)
        chk.evaluations += 1
        stats["cases"] = stats.get("cases", 0) + 1
        if c["sq"]:
            stats["squeezed"] = stats.get("squeezed", 0) + 1
        if c["ran"] and not c["log"] == [] and all(e["k"] == "keep" for e in c["log"]):
            stats["passed through"] = stats.get("passed through", 0) + 1
        if not c["ran"]:
            stats["refused before the body"] = stats.get("refused before the body", 0) + 1
        if c["dev"]["alias"]:
            stats["DevAliasSqueeze"] = stats.get("DevAliasSqueeze", 0) + 1
        if c["dev"]["zero"] and c["ran"]:
            stats["DevZeroDim"] = stats.get("DevZeroDim", 0) + 1
        if any(e["k"] == "unsq" for e in c["log"]):
            chk.nontriv(("U", tuple(c["I"]), json.dumps(c["args"]), json.dumps(c["out"])))
        if bad and len(bads) < 20000:
            bads.append((u_key(c, "probe") + ":" + bad[0].split(":")[0],
                         dict(case=dict(I=c["I"], args=c["args"], out=c["out"]), mismatches=bad[:6],
                              specification=dict(log=c["log"], seen=c["seen"], result_shape=c["rs"], squeezed=c["sq"],
                                                 exc=c["exc"], caller_after=c["caller"]))))
    # TLC's export order depends on thread timing: report the smallest failing cases, deterministically
    bads.sort(key=lambda b: (len(b[1]["case"]["args"]), len(b[1]["case"]["I"]), json.dumps(b[1]["case"])))
    for key, detail in bads[:30]:
        chk.violation(key, detail)
    return len(bads)


class _NoDonor(Exception):
    pass


def _picker(chk, cases):
    def pick(pred, what):
        for c in cases:
            if pred(c):
                return copy.deepcopy(c)
        if chk.disagreements:
            raise _NoDonor(what)
        raise common.MachineryError("no donor case for a negative control: " + what)
    return pick


def u_controls(chk, cases):
    try:
        _u_controls(chk, cases, _picker(chk, cases))
    except _NoDonor:
        pass


def _u_controls(chk, cases, pick):
    c = pick(lambda c: c["sq"] and c["rs"] != c["res"]["s0"] and not c["dev"]["alias"], "squeezed result")
    c["rs"], c["sq"] = c["res"]["s0"], False
    control(chk, bool(replay_u_probe(c)), "a result expected NOT to be squeezed compared equal")
    c = pick(lambda c: c["ran"] and c["exc"] == "" and any(e["k"] == "unsq" for e in c["log"])
             and not c["dev"]["zero"] and c["out"]["k"] == "fresh", "unsqueezed argument")
    j = next(e["i"] for e in c["log"] if e["k"] == "unsq")
    c["seen"][j] = dict(id=j + 1, s=c["args"][j], root=j + 1)
    control(chk, bool(replay_u_probe(c)), "an argument expected NOT to be unsqueezed compared equal")
    c = pick(lambda c: c["ran"] and c["exc"] == "" and not c["sq"] and c["res"]["k"] == "tensor"
             and c["rs"] and c["rs"][0] == 1, "passed-through result")
    c["rs"] = c["rs"][1:]
    control(chk, bool(replay_u_probe(c)), "a passed-through result expected to be squeezed compared equal")
    c = pick(lambda c: not c["ran"] and c["exc"] == "IndexError", "refused call")
    c["ran"], c["exc"] = True, ""
    control(chk, bool(replay_u_probe(c)), "a call with a missing listed position expected to reach the body compared equal")
    c = pick(lambda c: c["ran"] and c["exc"] == "" and c["I"] == [] and len(c["args"]) >= 2 and c["args"][0] != NT
             and len(c["args"][0]) < 2 and len(c["args"][1]) >= 2 and c["out"]["k"] == "fresh", "default index list")
    c["seen"][0] = dict(id=3, s=[1] + c["args"][0], root=1)
    control(chk, bool(replay_u_probe(c)), "default index list expected to be (0,) compared equal")


# --------------------------------------------------------------------------------------------
# discovery of the decorated entry points of the package

def discover():
    """[(owner, qualified name, function, decorator instance)] for every function of the qucumber package
    whose closure holds an auto_unsqueeze_args / deprecated_kwarg object and the function it wraps."""
    found, seen = [], set()
    mods = [qucumber]
    for m in pkgutil.walk_packages(qucumber.__path__, "qucumber."):
        try:
            mods.append(importlib.import_module(m.name))
        except Exception as ex:     # noqa: BLE001
            raise common.MachineryError("cannot import %s: %r" % (m.name, ex))
    for mod in mods:
        for name, obj in sorted(vars(mod).items()):
            cands = []
            if inspect.isfunction(obj):
                cands.append((mod, name, obj))
            elif inspect.isclass(obj) and (obj.__module__ or "").startswith("qucumber"):
                for an, av in sorted(vars(obj).items()):
                    if inspect.isfunction(av):
                        cands.append((obj, an, av))
            for owner, an, fn in cands:
                if id(fn) in seen:
                    continue
                cl = closure_of(fn)
                dec = cl.get("self")
                if isinstance(dec, (auto_unsqueeze_args, deprecated_kwarg)) and inspect.isfunction(cl.get("f")):
                    seen.add(id(fn))
                    first = owner.__name__ if inspect.isclass(owner) else cl["f"].__module__.split(".")[-1]
                    found.append((owner, "%s.%s" % (first, an), fn, dec))
    return found


# what the package is known to decorate (qualified name -> effective index list / alias table): a
# decoration that disappears or changes its list is a change of the public calling convention
EXPECT_U = {
    "BinaryRBM.effective_energy": [1], "BinaryRBM.prob_v_given_h": [1], "BinaryRBM.prob_h_given_v": [1],
    "PurificationRBM.effective_energy": [1], "PurificationRBM.prob_h_given_v": [1],
    "PurificationRBM.prob_a_given_v": [1], "PurificationRBM.prob_v_given_ha": [1, 2],
    "PurificationRBM.mixing_term": [1], "PositiveWaveFunction.phase": [1],
}
EXPECT_K = {
    "training_statistics.fidelity": {"target_psi": "target", "target_rho": "target"},
    "training_statistics.KL": {"target_psi": "target", "target_rho": "target"},
}
NV, NH, NA = 3, 2, 4
WIDTH = {"v": "nv", "vp": "nv", "h": "nh", "a": "na"}


def randomise(module, gen):
    for p in module.parameters():
        with torch.no_grad():
            p.copy_(torch.randn(p.shape, generator=gen, dtype=p.dtype) * 0.7 + 0.15)
    return module


def build_models(seed):
    """Small real models with random non-zero parameters; {class name: [instances]}."""
    from qucumber.rbm import BinaryRBM, PurificationRBM
    from qucumber.nn_states import PositiveWaveFunction, ComplexWaveFunction, DensityMatrix
    gen = torch.Generator().manual_seed(seed)
    with warnings.catch_warnings():
        warnings.simplefilter("ignore")
        psi = PositiveWaveFunction(NV, NH, gpu=False)
        cwf = ComplexWaveFunction(NV, NH, gpu=False)
        dm = DensityMatrix(NV, NH, NA, gpu=False)
        brbm = BinaryRBM(NV, NH, gpu=False)
        prbm = PurificationRBM(NV, NH, NA, gpu=False)
    for m in (psi.rbm_am, cwf.rbm_am, cwf.rbm_ph, dm.rbm_am, dm.rbm_ph, brbm, prbm):
        randomise(m, gen)
    return {"BinaryRBM": [brbm, psi.rbm_am, cwf.rbm_am, cwf.rbm_ph], "PurificationRBM": [prbm, dm.rbm_am, dm.rbm_ph],
            "PositiveWaveFunction": [psi], "_states": dict(psi=psi, cwf=cwf, dm=dm)}


class Entry:
    """A real auto_unsqueeze_args entry point: parameter names, widths, the undecorated body."""

    def __init__(self, qual, fn, dec, owner, inst):
        self.qual, self.fn, self.dec, self.inst = qual, fn, dec, inst
        self.body = body_of(fn)
        self.params = list(inspect.signature(self.body).parameters)
        self.I = list(dec.arg_indices)
        self.want_I = EXPECT_U.get(qual, self.I)      # the calling convention the cases are matched against
        dims = dict(nv=inst.num_visible, nh=inst.num_hidden, na=getattr(inst, "num_aux", None))
        self.width = {}
        for j, p in enumerate(self.params):
            if j == 0:
                continue
            if p in WIDTH:
                self.width[j] = dims[WIDTH[p]]
        for j in self.want_I:
            if 0 < j < len(self.params) and j not in self.width:
                raise common.MachineryError("%s: no way to build a tensor for listed parameter %r - extend WIDTH" % (qual, self.params[j]))
        self.out_pos = self.params.index("out") if "out" in self.params else None
        if self.out_pos is not None:
            a = [torch.zeros(1, self.width[j], dtype=torch.double) for j in range(1, len(self.params)) if j in self.width]
            self.width[self.out_pos] = self.body(inst, *a).shape[-1]

    def real_shape(self, j, s):
        return tuple(s[:-1]) + (self.width[j],) if s else ()

    def seen_shape(self, j, orig, seen):
        """the real shape of what the body receives: the caller's shape behind the new leading axes"""
        return (1,) * (len(seen) - len(orig)) + self.real_shape(j, orig)


def u_real_one(e, c, gen):
    """Exported case c on the real entry point e.  None = the case does not describe a call of e;
    else a list of mismatch strings."""
    shapes = c["args"]
    n = len(shapes)
    eff = c["I"] or [1]
    if eff != e.want_I or n > len(e.params) or shapes[0] != NT:
        return None
    out = c["out"]
    for j in range(1, n):
        if shapes[j] != NT and j not in e.width:
            return None                                  # a tensor where the function takes something else
        if j == e.out_pos and shapes[j] != NT and not (out["k"] == "alias" and out["p"] == j):
            return None
    if out["k"] == "alias":
        if out["p"] != e.out_pos or shapes[out["p"]] == NT:
            return None
    elif out["k"] != "fresh" or out["s"] != [2]:         # one representative of the fresh results
        return None
    args = [e.inst] + [torch.randn(e.real_shape(j, shapes[j]), generator=gen, dtype=torch.double).round_()
                       if shapes[j] != NT else None for j in range(1, n)]
    snap = snapshot(args)
    bad = []
    if not c["ran"]:
        try:
            with warnings.catch_warnings():
                warnings.simplefilter("ignore")
                e.fn(*args)
            bad.append("refusal: no exception although the specification refuses the call before the body")
        except Exception as ex:     # noqa: BLE001
            observe("real entry point refuses before the body with", type(ex).__name__)
        return bad
    # the reference: the undecorated body on what the specification says the body receives
    ref_args = [e.inst]
    for j in range(1, n):
        if args[j] is None:
            ref_args.append(None)
        else:
            ref_args.append(args[j].clone().reshape(e.seen_shape(j, shapes[j], c["seen"][j]["s"])))
    ref = ref_exc = got = got_exc = None
    with warnings.catch_warnings():
        warnings.simplefilter("ignore")
        try:
            ref = e.body(*ref_args)
        except Exception as ex:     # noqa: BLE001
            ref_exc = ex
        try:
            got = e.fn(*args)
        except Exception as ex:     # noqa: BLE001
            got_exc = ex
    if ref_exc is not None:
        # a combination the function itself does not accept: the decorated call must not accept it either
        if got_exc is None:
            bad.append("accepts: the decorated call returns although the body refuses the batched form (%r)" % (ref_exc,))
        elif type(got_exc) is not type(ref_exc):
            bad.append("accepts: decorated call raises %r, the body on the batched form %r" % (got_exc, ref_exc))
        else:
            observe("combination refused by the body itself", e.qual.split(".")[-1])
    elif got_exc is not None:
        bad.append("exception: %r, the batched form returns shape %s" % (got_exc, list(ref.shape)))
    else:
        want = sq0(ref.shape) if c["sq"] else list(ref.shape)
        if list(got.shape) != want:
            bad.append("result: shape %s, specification %s (batched form gives %s, squeezed=%s)"
                       % (list(got.shape), want, list(ref.shape), c["sq"]))
        elif not torch.allclose(got.reshape(-1), ref.reshape(-1), rtol=1e-12, atol=1e-12):
            bad.append("result: values differ from the batched form")
        if out["k"] == "alias" and not c["sq"] and got is not args[out["p"]]:
            bad.append("result: the out= tensor is not what a passed-through call returns")
    for j in range(1, n):
        if snap[j] is None:
            continue
        a = args[j]
        if j == e.out_pos:
            # the buffer belongs to the body (torch may resize it); the wrapper's share is the squeeze
            if got_exc is not None or ref_exc is not None:
                continue
            after_body = list(ref_args[j].shape)
            if list(a.shape) == after_body:
                if c["sq"] and sq0(after_body) != after_body:
                    observe("real out= buffer keeps its leading axis")
            elif c["sq"] and list(a.shape) == sq0(after_body):
                if list(a.shape) != list(snap[j][0]):
                    observe("real out= buffer loses its leading axis (in-place squeeze_)", e.qual)
                else:
                    observe("real 1-D out= buffer: resized by torch to one row, squeezed back in place", e.qual.split(".")[-1])
            else:
                bad.append("caller[%d]: out= buffer %s -> %s (the body alone leaves %s)" % (j, list(snap[j][0]), list(a.shape), after_body))
            continue
        if list(a.shape) != list(snap[j][0]) or a.stride() != snap[j][1] or not torch.equal(a.reshape(-1), snap[j][2]):
            bad.append("caller[%d]: shape %s -> %s, or strides / contents changed" % (j, list(snap[j][0]), list(a.shape)))
    return bad


def replay_u_real(chk, cases, entries, seed, stats):
    gen = torch.Generator().manual_seed(seed)
    n_bad = 0
    for ne, e in enumerate(entries):
        hit = 0
        for c in cases:
            bad = u_real_one(e, c, gen)
            if bad is None:
                continue
            hit += 1
            chk.evaluations += 1
            if c["sq"]:
                chk.nontriv(("U-real", e.qual, ne, json.dumps(c["args"]), c["out"]["k"]))
            if bad:
                n_bad += 1
                if n_bad <= 30:
                    chk.violation("%su-real:%s:%s" % (K, e.qual, bad[0].split(":")[0]),
                                  dict(function=e.qual, index_list=e.I, parameters=e.params,
                                       case=dict(args=c["args"], out=c["out"]), mismatches=bad[:6],
                                       specification=dict(log=c["log"], seen=[s["s"] for s in c["seen"]], squeezed=c["sq"])))
        stats[e.qual] = stats.get(e.qual, 0) + hit
        if hit < 4:
            machinery(chk, "only %d exported cases describe a call of %s" % (hit, e.qual))
    return n_bad


def u_real_extras(chk, entries):
    """Calls the specification has no case for: the same tensor object at two listed positions; a listed
    argument given by keyword (the wrapper indexes the positional list: IndexError - a deviation that is
    reported, its alternative - the call works - accepted)."""
    for e in entries:
        I = e.want_I
        v = torch.ones(e.width[I[0]], dtype=torch.double)
        kw = {e.params[I[0]]: v}
        chk.evaluations += 1
        try:
            if len(I) == 1:
                r = e.fn(e.inst, **kw)
                ref = e.fn(e.inst, v)
                if list(r.shape) != list(ref.shape) or not torch.allclose(r, ref):
                    chk.violation("%su-real:%s:keyword" % (K, e.qual), dict(function=e.qual, got=list(r.shape), want=list(ref.shape)))
                observe("listed argument given by keyword works")
        except IndexError:
            observe("listed argument given by keyword raises IndexError", e.qual)
        except Exception as ex:     # noqa: BLE001
            observe("listed argument given by keyword raises", type(ex).__name__)
        if len(I) == 2 and e.width[I[0]] == e.width[I[1]]:
            x = torch.ones(e.width[I[0]], dtype=torch.double)
            try:
                r, ref = e.fn(e.inst, x, x), e.body(e.inst, x.clone().unsqueeze(0), x.clone().unsqueeze(0))
                ok = list(r.shape) == sq0(ref.shape) and torch.allclose(r.reshape(-1), ref.reshape(-1)) and list(x.shape) == [e.width[I[0]]]
                got = list(r.shape)
            except Exception as ex:     # noqa: BLE001
                ok, got = False, repr(ex)
            if not ok:
                chk.violation("%su-real:%s:same-object-twice" % (K, e.qual), dict(function=e.qual, got=got))


# --------------------------------------------------------------------------------------------
# spec -> code, Part K

_MSG = re.compile(r"The argument (\w+) is deprecated for (\w+); use (\w+) instead\.")


def k_call(fn, pos_values, kw_values):
    """-> (result, exception, [(category, message)])"""
    with warnings.catch_warnings(record=True) as w:
        warnings.simplefilter("always")
        try:
            r, ex = fn(*pos_values, **kw_values), None
        except Exception as e:      # noqa: BLE001
            r, ex = None, e
    return r, ex, [(x.category, str(x.message)) for x in w]


def check_warnings(got, want_pairs, fname, names=None):
    """one warning per renamed entry, in table order, each naming the alias, the function and the true name"""
    names = names or {}
    bad = []
    if len(got) != len(want_pairs):
        bad.append("warnings: %d issued, specification %d %s" % (len(got), len(want_pairs), [m for _, m in got]))
        return bad
    for (cat, msg), (alias, true) in zip(got, want_pairs):
        m = _MSG.search(msg)
        alias, true = names.get(alias, alias), names.get(true, true)
        if not issubclass(cat, Warning):
            bad.append("warnings: category %r" % (cat,))
        if m is None:
            if alias not in msg or true not in msg:
                bad.append("warnings: %r does not name %s and %s" % (msg, alias, true))
        elif (m.group(1), m.group(3)) != (alias, true) or m.group(2) != fname:
            bad.append("warnings: %r, specification: %s -> %s in %s" % (msg, alias, true, fname))
        OBSERVED.setdefault("warning category", cat.__name__)
    return bad


def replay_k_probe(c, rng):
    table = {a: t for a, t in c["al"]}
    got = {}

    def target(x=None, t1=None, t2=None, **kw):
        """target docstring"""
        got["n"] = got.get("n", 0) + 1
        got["bound"] = dict(x=x, t1=t1, t2=t2, **kw)
    fn = deprecated_kwarg(**table)(target)
    bad = []
    miss = wraps_ok(fn)
    if miss:
        bad.append("wraps: not preserved %s" % miss)
    vals = {nm: object() for nm in c["kw"]}
    pvals = [object() for _ in range(c["npos"])]
    order = sorted(c["kw"])
    rng.shuffle(order)
    caller_kw = {nm: vals[nm] for nm in order}
    before = dict(caller_kw)
    r, ex, w = k_call(fn, pvals, caller_kw)
    if caller_kw != before or list(caller_kw) != list(before):
        bad.append("caller: the caller's keyword dict was changed")
    if got.get("n", 0) != (1 if c["ran"] else 0):
        bad.append("body: ran %d time(s), specification %s (stage %r)" % (got.get("n", 0), c["ran"], c["stage"]))
    if (type(ex).__name__ if ex is not None else "") != c["exc"]:
        bad.append("exception: %r, specification %r" % (ex, c["exc"]))
    bad += check_warnings(w, c["warn"], "target")
    if c["ran"] and got.get("n") == 1:
        b = got["bound"]
        for i, pv in enumerate(pvals):
            if b[K_POS[i]] is not pv:
                bad.append("positional: parameter %s did not receive the caller's value" % K_POS[i])
        for nm, origin in c["body"].items():
            if nm in K_POS[:c["npos"]]:
                continue
            have = b.get(nm)
            if origin == "":
                if have is not None:
                    bad.append("keywords: %s reached the body although the specification removes it" % nm)
            elif have is not vals[origin]:
                bad.append("keywords: %s did not receive the value given as %s" % (nm, origin))
        extra = set(b) - set(c["body"]) - set(K_POS)
        if extra:
            bad.append("keywords: unknown names %s reached the body" % sorted(extra))
    return bad


def k_key(c, how):
    kinds = "+".join(sorted({("alias" if nm in dict(map(tuple, c["al"])) else "true" if nm in [t for _, t in c["al"]] else "other")
                             for nm in c["kw"]})) or "none"
    return "%sk-%s:%d-aliases%s:%s:npos=%d" % (K, how, len(c["al"]), "" if c["chainfree"] else "-chained", kinds, c["npos"])


def replay_k(chk, cases, rng, stats):
    n_bad = 0
    for c in cases:
        bad = replay_k_probe(c, rng)
        chk.evaluations += 1
        stats["cases"] = stats.get("cases", 0) + 1
        if c["warn"]:
            chk.nontriv(("K", json.dumps(c["al"]), tuple(sorted(c["kw"])), c["npos"]))
        for f, lab in (("rename", "clash (alias and true name): TypeError before the body"),
                       ("bind", "renamed keyword collides with a positional argument: TypeError at the call")):
            if c["stage"] == f:
                stats[lab] = stats.get(lab, 0) + 1
        if c["devchain"] and c["ran"] and any(c["body"][a] != "" for a, _ in c["al"]):
            stats["DevChain: an alias reaches the body"] = stats.get("DevChain: an alias reaches the body", 0) + 1
        if bad:
            n_bad += 1
            if n_bad <= 30:
                chk.violation(k_key(c, "probe") + ":" + bad[0].split(":")[0],
                              dict(case=dict(aliases=c["al"], keywords=sorted(c["kw"]), npos=c["npos"]), mismatches=bad[:6],
                                   specification=dict(warnings=c["warn"], ran=c["ran"], body=c["body"], exc=c["exc"], stage=c["stage"])))
    return n_bad


def k_controls(chk, cases, rng):
    try:
        _k_controls(chk, cases, rng, _picker(chk, cases))
    except _NoDonor:
        pass


def _k_controls(chk, cases, rng, pick):
    c = pick(lambda c: c["ran"] and len(c["warn"]) >= 1, "renamed call")
    c["warn"] = c["warn"][1:]
    control(chk, bool(replay_k_probe(c, rng)), "a renamed keyword expected to issue no warning compared equal")
    c = pick(lambda c: c["ran"] and len(c["warn"]) == 1 and c["chainfree"], "renamed call")
    c["warn"] = c["warn"] * 2
    control(chk, bool(replay_k_probe(c, rng)), "a renamed keyword expected to warn twice compared equal")
    c = pick(lambda c: c["stage"] == "rename" and c["chainfree"], "clash")
    c["ran"], c["exc"], c["stage"] = True, "", ""
    c["body"] = {nm: (nm if nm in c["kw"] else "") for nm in next(x for x in cases if x["ran"])["body"]}
    control(chk, bool(replay_k_probe(c, rng)), "a clash expected to reach the body compared equal")
    c = pick(lambda c: c["ran"] and len(c["warn"]) == 1 and c["chainfree"], "renamed call")
    a, t = c["warn"][0]
    c["body"][a], c["body"][t] = a, ""
    control(chk, bool(replay_k_probe(c, rng)), "an alias expected to reach the body under its own name compared equal")


def k_real_setup(states):
    """real arguments for fidelity / KL: (state, target, space) for a wavefunction and a density matrix"""
    psi, dm = states["psi"], states["dm"]
    sp = psi.generate_hilbert_space()
    d = sp.shape[0]
    tp = torch.zeros(2, d, dtype=torch.double)
    tp[0] = torch.arange(1, d + 1, dtype=torch.double)
    tp[0] /= tp[0].norm()
    tr = torch.zeros(2, d, d, dtype=torch.double)
    tr[0] = torch.diag(torch.arange(1, d + 1, dtype=torch.double))
    tr[0] /= tr[0].trace()
    return [("wavefunction", psi, tp, sp), ("density-matrix", dm, tr, dm.generate_hilbert_space())]


def k_real_one(c, fn, fname, table, state, target, space):
    """Exported K case on a real deprecated_kwarg entry point (aliases a1, a2 -> t1 = `target`, t2 = `space`,
    o1 = an extra keyword the function ignores).  None = the case does not describe a call."""
    names = dict(zip(["a1", "a2", "a3"], table))          # abstract -> real alias names (table order)
    names.update(t1="target", t2="space", o1="an_extra_keyword")
    if c["npos"] < 1:
        return None
    bound_target = c["npos"] >= 2 or (c["ran"] and c["body"]["t1"] != "")
    if c["ran"] and not bound_target:
        return None                                       # python's own TypeError for a missing argument
    clones = {nm: target.clone() for nm in ("a1", "a2", "a3", "t1")}
    values = dict(clones, t2=space, o1=7)
    pos = [state, target, space][:c["npos"]]
    kw = {names[nm]: values[nm] for nm in sorted(c["kw"])}
    seen = {}
    body = body_of(fn)

    def spy(*a, **k):
        bound = inspect.signature(body).bind(*a, **k).arguments          # python's own binding of the call
        seen["n"] = seen.get("n", 0) + 1
        seen["bound"] = bound
        return body(*a, **k)
    spy.__name__ = body.__name__
    dec = closure_of(fn)["self"]
    bad = []
    for how, f in (("as shipped", fn), ("re-decorated spy", dec(spy))):
        r, ex, w = k_call(f, pos, kw)
        if (type(ex).__name__ if ex is not None else "") != c["exc"]:
            bad.append("exception (%s): %r, specification %r" % (how, ex, c["exc"]))
            continue
        bad += check_warnings(w, c["warn"], fname, names)
        if c["ran"]:
            tgt = target if c["npos"] >= 2 else values[c["body"]["t1"]]
            ref = body(state, tgt, space if (c["npos"] >= 3 or c["body"]["t2"] != "") else None)
            if r != ref:
                bad.append("result (%s): %r, the call by the true name gives %r" % (how, r, ref))
    if seen.get("n", 0) != (1 if c["ran"] else 0):
        bad.append("body: ran %d time(s), specification %s" % (seen.get("n", 0), c["ran"]))
    elif c["ran"]:
        b = seen["bound"]
        want_t = target if c["npos"] >= 2 else values[c["body"]["t1"]]
        if b.get("target") is not want_t:
            bad.append("keywords: `target` did not receive the value given as %s" % c["body"]["t1"])
        if any(a in b.get("kwargs", {}) or a in b for a in table):
            bad.append("keywords: a deprecated name reached the body")
        if ("o1" in c["kw"]) != ("an_extra_keyword" in b.get("kwargs", {})):
            bad.append("keywords: the unrelated keyword did not pass through")
    return bad


def replay_k_real(chk, cases, found_k, states, stats):
    n_bad = 0
    for qual, fn, dec in found_k:
        table = list(dec.aliases.items())
        if len(table) != 2 or {t for _, t in table} != {"target"} or \
                list(inspect.signature(body_of(fn)).parameters)[:3] != ["nn_state", "target", "space"]:
            machinery(chk, "%s: alias table %r / signature not of the form the replay drives" % (qual, table))
            continue
        want_al = [["a1", "t1"], ["a2", "t1"]]
        for label, state, target, space in k_real_setup(states):
            hit = 0
            for c in cases:
                if c["al"] != want_al or "a3" in c["kw"]:
                    continue
                bad = k_real_one(c, fn, body_of(fn).__name__, [a for a, _ in table], state, target, space)
                if bad is None:
                    continue
                hit += 1
                chk.evaluations += 1
                if c["warn"]:
                    chk.nontriv(("K-real", qual, label, tuple(sorted(c["kw"])), c["npos"]))
                if bad:
                    n_bad += 1
                    if n_bad <= 30:
                        chk.violation("%sk-real:%s:%s:%s" % (K, qual, label, bad[0].split(":")[0].split(" (")[0]),
                                      dict(function=qual, state=label, aliases=dict(table), keywords=sorted(c["kw"]), npos=c["npos"],
                                           mismatches=bad[:6], specification=dict(warnings=c["warn"], ran=c["ran"], exc=c["exc"])))
            stats["%s (%s)" % (qual, label)] = hit
            if hit < 20:
                machinery(chk, "only %d exported cases describe a call of %s" % (hit, qual))
    return n_bad


# --------------------------------------------------------------------------------------------
# code -> spec: recorded calls

_RAW = []


class SpyT(torch.Tensor):
    """A tensor that reports the three methods the wrapper uses on its arguments and on the result."""

    def dim(self):
        _RAW.append(("dim", getattr(self, "_pos", None)))
        return super().dim()

    def unsqueeze(self, d):
        r = super().unsqueeze(d)
        p = getattr(self, "_pos", None)
        try:
            r._pos = p
        except Exception:       # noqa: BLE001
            pass
        _RAW.append(("unsqueeze", p, d))
        return r

    def squeeze_(self, *d):
        r = super().squeeze_(*d)
        _RAW.append(("squeeze_", tuple(d), [int(x) for x in self.shape]))
        return r

    def squeeze(self, *d):              # the out-of-place form would serve the user as well
        r = super().squeeze(*d)
        _RAW.append(("squeeze_", tuple(d), [int(x) for x in r.shape]))
        return r


def spy_tensor(t, pos):
    s = t.as_subclass(SpyT)
    s._pos = pos
    return s


def storage_ptr(t):
    return t.untyped_storage().data_ptr()


def record_u(dec, body, args, kwargs=None, self_obj=None):
    """One call of dec(body)(*args) through the real decorator object -> a TraceDispatch line.
    args: caller's arguments (SpyT tensors tagged with their position, or non-tensors)."""
    kwargs = kwargs or {}
    st = dict(ran=False)
    del _RAW[:]
    roots = {storage_ptr(a): j for j, a in enumerate(args) if is_t(a)}
    given = [[int(d) for d in a.shape] if is_t(a) else NT for a in args]        # before the call

    def inner(*a, **k):
        st["mark"] = len(_RAW)
        st["ran"] = True
        st["seen"] = [dict(own=(x is args[j]) if j < len(args) else False,
                           s=[int(d) for d in x.shape] if is_t(x) else NT,
                           root=(roots.get(storage_ptr(x), -1) + 1) if is_t(x) else 0) for j, x in enumerate(a)]
        try:
            r = body(*a, **k)
        except Exception as ex:     # noqa: BLE001
            st["body_exc"] = ex
            raise
        finally:
            # the specification's body does not reshape what it receives (torch resizes an out= buffer of another shape)
            now = [[int(d) for d in x.shape] if is_t(x) else NT for x in a]
            st["body_reshaped"] = now != [e["s"] for e in st["seen"]]
        where = [j for j, x in enumerate(a) if x is r]
        if where:
            st["out"] = dict(k="alias", s=[], p=where[0])
        elif is_t(r):
            if not isinstance(r, SpyT):
                r = r.as_subclass(SpyT)                  # a fresh object nobody else holds
            st["out"] = dict(k="fresh", s=[int(d) for d in r.shape], p=0)
        else:
            st["out"] = dict(k="nontensor", s=[], p=0)
        st["ret"] = r
        st["mark2"] = len(_RAW)
        return r
    fn = dec(inner)
    exc = result = None
    try:
        with warnings.catch_warnings():
            warnings.simplefilter("ignore")
            result = fn(*args, **kwargs)
    except Exception as ex:     # noqa: BLE001
        exc = ex
    ev = []
    raw = list(_RAW)
    head = raw[:st.get("mark", len(raw))]
    i = 0
    while i < len(head):
        r = head[i]
        if r[0] == "dim":
            if i + 1 < len(head) and head[i + 1][0] == "unsqueeze" and head[i + 1][1] == r[1]:
                ev.append(dict(k="unsq", i=r[1] if r[1] is not None else -1))
                i += 2
                continue
            ev.append(dict(k="keep", i=r[1] if r[1] is not None else -1))
        else:
            ev.append(dict(k="?", i=-1, raw=repr(r)))
        i += 1
    out = dict(k="fresh", s=[], p=0)
    if st["ran"]:
        ev.append(dict(k="invoke", seen=st["seen"]))
        if "body_exc" in st:
            out = dict(k="raise", s=[], p=0)
        else:
            out = st["out"]
            for r in raw[st["mark2"]:]:
                if r[0] == "squeeze_" and r[1] == (0,):
                    ev.append(dict(k="squeeze", s=r[2]))
                else:
                    ev.append(dict(k="?", i=-1, raw=repr(r)))
    if exc is None:
        ename = ""
    elif st.get("body_exc") is exc:
        ename = "BodyError"
    else:
        ename = type(exc).__name__
    rk = "none" if (not st["ran"] or "body_exc" in st) else ("tensor" if out["k"] != "nontensor" and is_t(st.get("ret")) else "nontensor")
    rs = [int(d) for d in result.shape] if exc is None and is_t(result) else []
    ev.append(dict(k="done", exc=ename, ran=st["ran"], rk=rk, rs=rs,
                   caller=[[int(d) for d in a.shape] if is_t(a) else NT for a in args]))
    I = list(getattr(dec, "_as_written", dec.arg_indices))
    return dict(m="U", c=dict(I=I, args=given, out=out), ev=ev, outside=bool(st.get("body_reshaped"))), \
        dict(result=result, exc=exc, ret=st.get("ret"))


def random_u_probe_trace(rng):
    n = rng.randint(1, 5)
    I = [] if rng.random() < 0.2 else [rng.randint(0, 5 if rng.random() < 0.15 else n - 1) for _ in range(rng.randint(1, 3))]
    args = []
    for j in range(n):
        if rng.random() < (0.08 if (j in I or (not I and j == 1)) else 0.3):
            args.append(rng.choice([None, [1.0], 3]))
        else:
            rank = rng.choice([0, 1, 1, 2, 2, 3])
            shape = [rng.choice([1, 1, 2, 3]) for _ in range(rank)]
            args.append(spy_tensor(make_tensor(shape, salt=j), j))
    kind = rng.choice(["fresh", "fresh", "fresh", "alias", "alias", "nontensor", "raise"])
    fresh_shape = [rng.choice([1, 1, 2, 3]) for _ in range(rng.randint(0, 3))]
    p = rng.randrange(n)

    def body(*a, **k):
        if kind == "raise":
            raise ValueError("raised by the probe")
        if kind == "nontensor":
            return 2.5
        if kind == "alias":
            return a[p]
        return make_tensor(fresh_shape, salt=9)
    dec = auto_unsqueeze_args(*I)
    dec._as_written = I
    line, _ = record_u(dec, body, args)
    return line


def random_u_real_trace(rng, entries, gen):
    e = rng.choice(entries)
    n = rng.randint(max(e.I) + 1, len(e.params))
    args = [e.inst]
    for j in range(1, n):
        if j not in e.width or (j not in e.I and rng.random() < 0.5):
            args.append(None)
            continue
        if j == e.out_pos:
            if any(is_t(x) and tuple(x.shape[:-1]) not in ((), (1,)) for x in args[1:]):
                args.append(None)
                continue
            shape = rng.choice([(1, e.width[j]), (e.width[j],)])
        else:
            shape = rng.choice([(e.width[j],), (e.width[j],), (1, e.width[j]), (2, e.width[j]), (1, 2, e.width[j])])
        args.append(spy_tensor(torch.randn(shape, generator=gen, dtype=torch.double).round_(), j))
    line, _ = record_u(e.dec, e.body, args)
    line["c"]["I"] = list(e.dec.arg_indices)
    line["fn"] = e.qual
    return line


def record_k(dec, body, fname, pos, kw, to_abs):
    """One call of dec(body) -> a TraceDispatch line.  to_abs: real keyword name -> abstract name."""
    st = dict(ran=False)

    def inner(*a, **k):
        bound = inspect.signature(body).bind_partial(*a, **k).arguments      # python's own binding of the call
        st["ran"] = True
        flat = dict(bound)
        flat.update(flat.pop("kw", {}) if "kw" in flat else {})
        flat.update(flat.pop("kwargs", {}) if "kwargs" in flat else {})
        st["bound"] = flat
        return None
    inner.__name__ = fname
    fn = dec(inner)
    r, ex, w = k_call(fn, pos, kw)
    ev = []
    for cat, msg in w:
        m = _MSG.search(msg)
        if m is None or m.group(2) != fname:
            ev.append(dict(k="?", raw=msg))
        else:
            ev.append(dict(k="warn", alias=to_abs.get(m.group(1), "?" + m.group(1)), true=to_abs.get(m.group(3), "?" + m.group(3))))
    if st["ran"]:
        origin = {id(v): to_abs[nm] for nm, v in kw.items()}
        body_map = {nm: "" for nm in T_NAMES}
        npos_names = list(inspect.signature(body).parameters)[:len(pos)]
        for nm, v in st["bound"].items():
            if nm in npos_names:
                continue
            a = to_abs.get(nm)
            if a is None:
                if id(v) in origin:
                    ev.append(dict(k="?", raw="value under unknown name %s" % nm))
                continue
            if id(v) in origin:
                body_map[a] = origin[id(v)]
        ev.append(dict(k="kinvoke", body=body_map))
    ev.append(dict(k="kdone", exc=type(ex).__name__ if ex is not None else "", ran=st["ran"]))
    table = [[to_abs[a], to_abs[t]] for a, t in dec.aliases.items()]
    return dict(m="K", c=dict(al=table, kw=sorted(to_abs[nm] for nm in kw), npos=len(pos)), ev=ev)


def k_probe_body(x=None, t1=None, t2=None, **kw):
    return None


def random_k_probe_trace(rng):
    ident = {nm: nm for nm in T_NAMES}
    aliases = rng.sample(["a1", "a2", "a3", "a4"], rng.randint(0, 4))
    table = {}
    for a in aliases:
        pool = ["t1", "t2", "t3"] if rng.random() < 0.8 else [x for x in ["a1", "a2", "a3", "a4"] if x != a]
        table[a] = rng.choice(pool)
    names = [nm for nm in T_NAMES if rng.random() < (0.55 if nm in table else 0.3)]
    pos = [object() for _ in range(rng.randint(0, 3))]
    kw = {nm: object() for nm in names}
    return record_k(deprecated_kwarg(**table), k_probe_body, "k_probe_body", pos, kw, ident)


def random_k_real_trace(rng, found_k, states):
    qual, fn, dec = rng.choice(found_k)
    label, state, target, space = rng.choice(k_real_setup(states))
    table = list(dec.aliases.items())
    to_abs = {a: "a%d" % (i + 1) for i, (a, _) in enumerate(table)}
    to_abs.update(target="t1", space="t2", an_extra_keyword="o1")
    real = [a for a, _ in table] + ["target", "space", "an_extra_keyword"]
    kw = {nm: (target.clone() if to_abs[nm][0] in "at" and nm != "space" else space if nm == "space" else 7)
          for nm in real if rng.random() < 0.4}
    pos = [state, target, space][:rng.randint(1, 3)]
    line = record_k(dec, body_of(fn), body_of(fn).__name__, pos, kw, to_abs)
    line["fn"] = qual
    return line


def _ints(s):
    return isinstance(s, list) and all(type(v) is int and v >= 0 for v in s)


def trace_malformed(ln):
    """first thing that is not shaped like a TraceDispatch line / event, or None"""
    try:
        c, ev = ln["c"], ln["ev"]
        if ln["m"] == "U":
            if not (_ints(c["I"]) and isinstance(c["args"], list) and all(_ints(s) for s in c["args"]) and len(c["args"]) >= 1
                    and c["out"]["k"] in ("fresh", "alias", "nontensor", "raise") and _ints(c["out"]["s"])
                    and type(c["out"]["p"]) is int and 0 <= c["out"]["p"] < len(c["args"])):
                return "case"
            for i, e in enumerate(ev):
                k = e.get("k")
                if k in ("unsq", "keep"):
                    ok = set(e) == {"k", "i"} and type(e["i"]) is int and e["i"] >= 0
                elif k == "invoke":
                    ok = set(e) == {"k", "seen"} and all(set(s) == {"own", "s", "root"} and type(s["own"]) is bool and _ints(s["s"])
                                                         and type(s["root"]) is int and s["root"] >= 0 for s in e["seen"])
                elif k == "squeeze":
                    ok = set(e) == {"k", "s"} and _ints(e["s"])
                elif k == "done":
                    ok = set(e) == {"k", "exc", "ran", "rk", "rs", "caller"} and isinstance(e["exc"], str) and type(e["ran"]) is bool \
                        and e["rk"] in ("none", "tensor", "nontensor") and _ints(e["rs"]) and all(_ints(s) for s in e["caller"]) \
                        and i == len(ev) - 1
                else:
                    ok = False
                if not ok:
                    return "event %d: %r" % (i, e)
        elif ln["m"] == "K":
            if not (isinstance(c["al"], list) and all(isinstance(p, list) and len(p) == 2 and all(x in T_NAMES for x in p) for p in c["al"])
                    and isinstance(c["kw"], list) and all(x in T_NAMES for x in c["kw"]) and type(c["npos"]) is int and 0 <= c["npos"] <= 3):
                return "case"
            for i, e in enumerate(ev):
                k = e.get("k")
                if k == "warn":
                    ok = set(e) == {"k", "alias", "true"} and e["alias"] in T_NAMES and e["true"] in T_NAMES
                elif k == "kinvoke":
                    ok = set(e) == {"k", "body"} and set(e["body"]) == set(T_NAMES) and all(v == "" or v in T_NAMES for v in e["body"].values())
                elif k == "kdone":
                    ok = set(e) == {"k", "exc", "ran"} and isinstance(e["exc"], str) and type(e["ran"]) is bool and i == len(ev) - 1
                else:
                    ok = False
                if not ok:
                    return "event %d: %r" % (i, e)
        else:
            return "m"
        if not ev or ev[-1]["k"] not in ("done", "kdone"):
            return "no final event"
    except (KeyError, TypeError, AttributeError) as ex:
        return "shape: %r" % (ex,)
    return None


def validate_traces(lines, timeout=900):
    d = tempfile.mkdtemp(prefix="verif-dispatch-trace-")
    try:
        path = os.path.join(d, "traces.ndjson")
        with open(path, "w") as fh:
            for ln in lines:
                fh.write(json.dumps(dict(m=ln["m"], c=ln["c"], ev=ln["ev"])) + "\n")
        c, dd = dict(IDLE_U["c"]), dict(IDLE_U["d"])
        c.update({"KMaxPos": 3})
        dd.update({"KTables": "{}", "KNames": tlc.tla_value(set(T_NAMES)), "KPosParams": tlc.tla_value(K_POS)})
        res = tlc.run("TraceDispatch", constants=c, defs=dd, init="TrInit", next="TrNext",
                      constraints=["TrTrack"], postcondition="TrVerdicts", invariants=U_INV + K_INV,
                      workers=1, heap=HEAP, timeout=timeout, env={"TRACE_FILE": path})
    finally:
        shutil.rmtree(d, ignore_errors=True)
    verdict = {e["tid"]: e for e in res.exports if isinstance(e, dict) and "tid" in e}
    acc, matched = [], []
    for i in range(1, len(lines) + 1):
        if i not in verdict:
            raise common.MachineryError("no verdict for dispatch trace %d\n%s" % (i, res.raw[-3000:]))
        acc.append(verdict[i]["matched"] == verdict[i]["need"])
        matched.append(verdict[i]["matched"])
    return res, acc, matched


def corrupt_traces(good, missing):
    """corrupted copies of recorded calls that TraceDispatch.tla must refuse -> [(what, line)].
    A control without a donor call is noted in `missing` (judged at the end of the run: on an
    implementation that disagrees with the specification the donor may legitimately not exist)."""
    out = []

    def add(what, pred, change):
        for ln in good:
            if pred(ln):
                c = copy.deepcopy(ln)
                change(c)
                if trace_malformed(c) is not None:
                    raise common.MachineryError("negative control produced a malformed trace: " + what)
                out.append((what, c))
                return
        missing.append(what)

    def ks(ln):
        return [e["k"] for e in ln["ev"]]

    def unsqueeze_result(c):
        sq = next(e for e in c["ev"] if e["k"] == "squeeze")
        c["ev"].remove(sq)
        c["ev"][-1]["rs"] = [1] + c["ev"][-1]["rs"]
    add("recorded call whose result was NOT squeezed although an argument was unsqueezed accepted",
        lambda ln: ln["m"] == "U" and "squeeze" in ks(ln) and ln["ev"][-1]["exc"] == "" and ln["c"]["out"]["k"] == "fresh"
        and ln["c"]["out"]["s"][:1] == [1], unsqueeze_result)

    def squeeze_anyway(c):
        c["ev"].insert(len(c["ev"]) - 1, dict(k="squeeze", s=c["ev"][-1]["rs"][1:]))
        c["ev"][-1]["rs"] = c["ev"][-1]["rs"][1:]
    add("recorded call whose result was squeezed although nothing was unsqueezed accepted",
        lambda ln: ln["m"] == "U" and "invoke" in ks(ln) and "squeeze" not in ks(ln) and "unsq" not in ks(ln)
        and ln["ev"][-1]["exc"] == "" and ln["ev"][-1]["rs"][:1] == [1], squeeze_anyway)

    def not_unsqueezed(c):
        i = next(n for n, e in enumerate(c["ev"]) if e["k"] == "unsq")
        j = c["ev"][i]["i"]
        c["ev"][i] = dict(k="keep", i=j)
        inv = next(e for e in c["ev"] if e["k"] == "invoke")
        inv["seen"][j] = dict(own=True, s=c["c"]["args"][j], root=j + 1)
    add("recorded call in which a 1-D listed argument was NOT unsqueezed accepted",
        lambda ln: ln["m"] == "U" and ks(ln).count("unsq") == 1 and "invoke" in ks(ln), not_unsqueezed)

    def caller_changed(c):
        j = next(n for n, s in enumerate(c["ev"][-1]["caller"]) if s != NT and len(s) >= 1)
        c["ev"][-1]["caller"][j] = [1] + c["ev"][-1]["caller"][j]
    add("recorded call after which a caller's tensor has another shape accepted",
        lambda ln: ln["m"] == "U" and "invoke" in ks(ln) and ln["c"]["out"]["k"] == "fresh"
        and any(s != NT and len(s) >= 1 for s in ln["ev"][-1]["caller"]), caller_changed)
    add("recorded call in which a renamed keyword issued no warning accepted",
        lambda ln: ln["m"] == "K" and "warn" in ks(ln) and "kinvoke" in ks(ln),
        lambda c: c["ev"].remove(next(e for e in c["ev"] if e["k"] == "warn")))
    add("recorded call in which one alias warned twice accepted",
        lambda ln: ln["m"] == "K" and ks(ln).count("warn") == 1,
        lambda c: c["ev"].insert(0, dict(c["ev"][0])))

    def clash_reaches_body(c):
        body = {nm: (nm if nm in c["c"]["kw"] else "") for nm in T_NAMES}
        c["ev"] = [e for e in c["ev"] if e["k"] == "warn"] + [dict(k="kinvoke", body=body), dict(k="kdone", exc="", ran=True)]
    add("recorded call in which alias and true name together reached the body accepted",
        lambda ln: ln["m"] == "K" and ln["ev"][-1]["exc"] == "TypeError" and not ln["ev"][-1]["ran"]
        and any(a in ln["c"]["kw"] and t in ln["c"]["kw"] for a, t in ln["c"]["al"]), clash_reaches_body)
    return out


# --------------------------------------------------------------------------------------------

def run(chk, tier, seed):
    rng = random.Random(seed * 6151 + 3)
    quick = tier == "quick"
    info = chk.extra.setdefault("ext_dispatch", {})
    OBSERVED.clear()

    ub, kb = u_bounds(tier), k_bounds(tier)
    small_u, small_k = u_bounds("tiny"), k_bounds("quick")
    pool = cf.ThreadPoolExecutor(max_workers=4)          # TLC runs while python builds models and records calls
    if quick:
        fb = pool.submit(tlc_both, ub, kb)
    else:
        fu = pool.submit(tlc_u, ub)
        fk = pool.submit(tlc_k, kb)
    ctl = {
        "the in-place squeeze_ must violate the strict reading 'the caller's tensors are never modified' "
        "(StrictCallerUntouched: DevAliasSqueeze is reachable)":
            pool.submit(tlc_u, small_u, False, ["StrictCallerUntouched"], False, 300, 1),
    }
    if not quick:
        ctl["a wrapper that squeezes every result must violate SqueezeOnlyIfUnsqueezed"] = \
            pool.submit(tlc_u, small_u, False, ["SqueezeOnlyIfUnsqueezed"], True, 300, 1)
        ctl["a 0-d listed argument must violate the strict reading 'the body sees a batch' (StrictInnerSeesBatch)"] = \
            pool.submit(tlc_u, small_u, False, ["StrictInnerSeesBatch"], False, 300, 1)
        ctl["a wrapper that squeezes every result must violate PassThroughWhenBatched"] = \
            pool.submit(tlc_u, small_u, False, ["PassThroughWhenBatched"], True, 300, 1)
        ctl["a chained alias table must violate the strict reading 'no deprecated name reaches the body' "
            "(StrictNoAliasReachesBody)"] = pool.submit(tlc_k, small_k, False, ["StrictNoAliasReachesBody"], 300, 1)

    # ---- the decorated entry points of the package
    found = discover()
    found_u = [(q, fn, dec, owner) for owner, q, fn, dec in found if isinstance(dec, auto_unsqueeze_args)]
    found_k = [(q, fn, dec) for owner, q, fn, dec in found if isinstance(dec, deprecated_kwarg)]
    info["entry_points"] = {q: (list(dec.arg_indices) if isinstance(dec, auto_unsqueeze_args) else dict(dec.aliases))
                            for _, q, _, dec in found}
    for _, q, fn, dec in found:
        chk.evaluations += 1
        miss = wraps_ok(fn)
        if miss:
            chk.violation("%sreal:wraps:%s" % (K, q), dict(function=q, not_preserved=miss))
    got_u = {q: list(dec.arg_indices) for q, _, dec, _ in found_u}
    got_k = {q: dict(dec.aliases) for q, _, dec in found_k}
    for q, want in sorted(EXPECT_U.items()):
        chk.evaluations += 1
        if sorted(set(got_u.get(q, []))) != want:           # order and repetitions of the listing are immaterial here
            chk.violation("%sreal:index-list:%s" % (K, q), dict(function=q, expected=want, found=got_u.get(q, "not decorated")))
    for q, want in sorted(EXPECT_K.items()):
        chk.evaluations += 1
        if got_k.get(q) != want:
            chk.violation("%sreal:alias-table:%s" % (K, q), dict(function=q, expected=want, found=got_k.get(q, "not decorated")))
    models = build_models(seed)
    entries = []
    for q, fn, dec, owner in found_u:
        insts = models.get(owner.__name__)
        if not insts:
            raise common.MachineryError("no model instance for the decorated entry point %s" % q)
        for inst in (insts if not quick else insts[:2]):
            entries.append(Entry(q, fn, dec, owner, inst))

    with pool:
        # ---- recorded calls (code -> spec)
        gen = torch.Generator().manual_seed(seed + 1)
        n_up, n_ur, n_kp, n_kr = (150, 60, 120, 40) if quick else (1500, 500, 1200, 300)
        traces = [random_u_probe_trace(rng) for _ in range(n_up)] + [random_u_real_trace(rng, entries, gen) for _ in range(n_ur if entries else 0)] + \
                 [random_k_probe_trace(rng) for _ in range(n_kp)] + \
                 ([random_k_real_trace(rng, found_k, models["_states"]) for _ in range(n_kr)] if found_k else [])
        good = []
        for ln in traces:
            if ln.get("outside"):
                observe("recorded call outside the model: the body (torch) resized its out= buffer", ln.get("fn", "probe"))
                continue
            why = trace_malformed(ln)
            if why is not None:
                chk.violation("%strace:malformed:%s:%s" % (K, ln.get("m"), ln.get("fn", "probe")),
                              dict(why="the recorded call has a step with no counterpart in the specification: " + why,
                                   case=ln.get("c"), events=ln.get("ev")))
            else:
                good.append(ln)
        missing = []
        t_bad = corrupt_traces(good, missing)

        ft = pool.submit(validate_traces, good + [c for _, c in t_bad])

        # ---- Part K (small, arrives first)
        if quick:
            rb = fb.result()
            chk.add_tlc(rb, "Dispatch.tla parts U and K in one run: auto_unsqueeze_args (MaxArgs=%d), deprecated_kwarg (%s)"
                        % (ub["MaxArgs"], ", ".join("%s=%s" % kv for kv in sorted(kb.items()))))
            if rb.violation:
                chk.violation(K + "spec:" + str(rb.violation), dict(tlc=rb.raw[-3000:]))
            kexp = [c for c in rb.exports if "al" in c]
            ucases = [c for c in rb.exports if "I" in c]
        else:
            rk = fk.result()
            chk.add_tlc(rk, "Dispatch.tla part K: deprecated_kwarg (%s)" % ", ".join("%s=%s" % kv for kv in sorted(kb.items())))
            if rk.violation:
                chk.violation(K + "spec:K:" + str(rk.violation), dict(tlc=rk.raw[-3000:]))
            kexp = rk.exports
        kcases = sorted(kexp, key=lambda c: json.dumps(c, sort_keys=True))
        for c in kcases:
            c["kw"] = sorted(c["kw"])
            c["body"] = c["body"] if isinstance(c["body"], dict) else {}
        sk, skr = {}, {}
        replay_k(chk, kcases, rng, sk)
        k_controls(chk, kcases, rng)
        if found_k:
            replay_k_real(chk, kcases, found_k, models["_states"], skr)
        info["deprecated_kwarg"] = dict(probe=sk, real=skr)
        chk.sample(dict(k_case=next((c for c in kcases if c["stage"] == "rename" and c["warn"]), None)))

        # ---- Part U
        if not quick:
            ru = fu.result()
            chk.add_tlc(ru, "Dispatch.tla part U: auto_unsqueeze_args (MaxArgs=%d)" % ub["MaxArgs"])
            if ru.violation:
                chk.violation(K + "spec:U:" + str(ru.violation), dict(tlc=ru.raw[-3000:]))
            ucases = ru.exports
            ru.exports = None
            ru.raw = ""
        su, sur = {}, {}
        replay_u(chk, ucases, su)
        key = lambda c: json.dumps([c["I"], c["args"], c["out"]])      # noqa: E731 - TLC's order depends on thread timing
        small = sorted((c for c in ucases if c["args"][0] == NT or len(c["args"]) <= 2), key=key)
        u_controls(chk, small)
        replay_u_real(chk, [c for c in small if c["args"][0] == NT], entries, seed + 2, sur)
        u_real_extras(chk, entries)
        info["auto_unsqueeze_args"] = dict(probe=su, real_cases_per_entry_point=sur)
        chk.sample(dict(u_case=next((c for c in small if c["dev"]["alias"]), None)))
        del ucases

        # ---- traces
        rt, acc, matched = ft.result()
        chk.add_tlc(rt, "TraceDispatch.tla (%d recorded calls through the real decorators)" % len(good))
        if rt.violation:
            chk.violation(K + "trace:invariant:" + str(rt.violation), dict(tlc=rt.raw[-3000:]))
        for j, (what, _) in enumerate(t_bad):
            control(chk, not acc[len(good) + j], what)
        for i, ok in enumerate(acc[:len(good)]):
            ln = good[i]
            if ok:
                chk.traces += 1
                if any(e["k"] in ("unsq", "warn") for e in ln["ev"]):
                    chk.nontriv(("trace", i))
            else:
                nxt = ln["ev"][matched[i]] if matched[i] < len(ln["ev"]) else None
                chk.violation("%strace:rejected:%s:%s:%s" % (K, ln["m"], ln.get("fn", "probe"), nxt["k"] if nxt else "end"),
                              dict(case=ln["c"], events=ln["ev"], matched_prefix=matched[i], next_event=nxt))
        info["recorded_calls"] = dict(u_probe=n_up, u_real=n_ur, k_probe=n_kp, k_real=n_kr if found_k else 0)
        chk.sample(dict(recorded_call=next((ln for ln in good if ln["m"] == "U" and ln.get("fn") and
                                            any(e["k"] == "squeeze" for e in ln["ev"])), None)))
        for what, f in ctl.items():
            r = f.result()
            chk.add_tlc(r, "control: " + what)
            chk.control(r.violation is not None, "specification control held although it must fail: " + what)
    info["observed"] = dict(sorted(OBSERVED.items()))
    if missing and not chk.disagreements:
        raise common.MachineryError("no donor call for the negative control(s): " + "; ".join(missing))

    chk.assumptions += [
        "argument dispatch: index lists hold non-negative python indices; a tensor object is passed at one position "
        "only (two positions: python-side check on prob_v_given_ha-like entry points); bounds as listed in tlc_runs",
        "argument dispatch: named deviations of the code are modelled as the code behaves and the behaviour a user "
        "would expect instead is accepted as well (counts under ext_dispatch.observed): 0-d listed argument, in-place "
        "squeeze_ of a caller's tensor returned by the body, exception type of a call refused before the body, "
        "non-tensor result of an unsqueezed call",
        "argument dispatch: real entry points are compared with their own undecorated body (__wrapped__) on the "
        "explicitly batched arguments - the numerical content of the body is the subject of other checks"]
    chk.rule += ("  || ext_dispatch: every (index list, argument kinds, result kind) call of Dispatch.tla part U and every "
                 "(alias table, keyword set, positional count) call of part K inside the bounds; non-trivial = a call in "
                 "which an argument is unsqueezed / a keyword is renamed")
    return chk
