"""Batches are lists of samples, not subsets of the basis: in use they are thousands of rows long
(statistics(), KL/NLL on a data set, training batches).  Every per-row quantity the checks decide on
the 2^n basis states must take the same value, row by row, on a batch that is far longer than the
basis - sizes straddle the powers of two at which an implementation would naturally cut a batch
into blocks."""
import random

import torch

SIZES = (129, 300, 1500, 5000)


def rows(rng_or_seed, N, m):
    r = rng_or_seed if isinstance(rng_or_seed, random.Random) else random.Random(rng_or_seed)
    return [r.randrange(N) for _ in range(m)]


def size(counter):
    return SIZES[counter % len(SIZES)]


def rowwise(chk, key, detail, f, space, want, counter, rtol=1e-9):
    """f(batch) -> 1-D tensor; want: 1-D tensor f(space) already decided exactly elsewhere."""
    N = space.shape[0]
    m = size(counter)
    idx = rows(counter * 7919 + N, N, m)
    batch = space[idx]
    before = batch.clone()
    got = f(batch)
    chk.evaluations += 1
    exp = want[idx]
    atol = 1e-12 * float(want.abs().max()) + 1e-300
    if tuple(got.shape) != (m,) or not torch.allclose(got, exp, rtol=rtol, atol=atol):
        bad = -1
        if tuple(got.shape) == (m,):
            bad = int(((got - exp).abs() - rtol * exp.abs()).argmax())
        chk.violation(key, dict(detail, rows=m, worst_row=bad, basis_state_of_row=idx[bad] if bad >= 0 else None,
                                got=got[bad].item() if bad >= 0 else None, expected=exp[bad].item() if bad >= 0 else None,
                                why="a row of a long batch does not take the value of its basis state"))
        return False
    if not torch.equal(before, batch):
        chk.violation(key + ":batch-modified", dict(detail, rows=m))
        return False
    return True
